"""C09 — literal/pattern instructions map enum variants to primitive values both ways."""
import re

from ..pe import show_toks
from ..src import Inconclusive, method_calls, render, walk
from ..tables import ATTR, EXPAND, direction
from . import c02

LEVEL = "other"
EXPLANATION = (
    "Decided structurally: R1 the literal/pattern cells of render_enum_line's decision table (From: `<literal> => Variant`, `<pattern> => Variant`; Into: "
    "`Variant => <literal>`; Into with a pattern needs an expression) against the documented shapes; R2 the SAME literal tokens (one accessor, same "
    "counterpart argument) feed both directions, and literal/pattern tokens pass through verbatim (LitAttr/PatAttr store `input.parse()` of the rest); R3 the "
    "default-case emission formula includes 'any literal or pattern present'; R4 arms are pushed in variant declaration order with the default last, so "
    "overlapping patterns are tried in declaration order. Matching semantics of the user's patterns and the round trip over values are rustc's semantics on user "
    "tokens and are not decided.")
NOT_DECIDED = ["matching semantics of user patterns, range boundaries", "round trip on runtime values (follows from R1+R2 only when literals are pairwise distinct, which is a property of the input)"]


def run(chk):
    repo = chk.repo

    def r1():
        chk.rule("R1", "literal / pattern arm cells", floor=8)
        chk.rule("R2", "the same literal tokens feed both directions; tokens stored verbatim", floor=3)
        T = c02.enum_line_table(repo)
        seen = {}
        lit_paths = {"From": set(), "Into": set()}
        for lf in T["leaves"]:
            if lf.kind != "ok" or lf.toks is None:
                continue
            c = c02.cell(lf)
            if c["dir"] not in ("From", "Into") or (c["lit"] != "Some" and c["pat"] != "Some"):
                continue
            exp = c02.expected_arm(c)
            if exp is None:
                continue
            key = c02.ckey(c)
            raw = show_toks(lf.toks)
            got = c02.norm(raw)
            ok = got == c02.squash(exp)
            for m in re.findall(r"‹(v\.attrs\.lit\([^()]*\)!\.tokens)›", raw):
                lit_paths[c["dir"]].add(m)
            if key in seen and seen[key] == ok:
                continue
            seen[key] = ok
            chk.expect("R1", f"arm{key}", ok, EXPAND, T["fn_line"], "literal/pattern arm differs from the documented shape", expected=c02.squash(exp), found=got)
        same = lit_paths["From"] == lit_paths["Into"] == {"v.attrs.lit(ctx.struct_attr.ty)!.tokens"}
        chk.expect("R2", "same-literal-both-ways", same, EXPAND, T["fn_line"], "From and Into arms do not use the same literal of the same counterpart", found={k: sorted(v) for k, v in lit_paths.items()})
        for ty in ("LitAttr", "PatAttr"):
            fi = repo.fn(ATTR, "parse", impl=ty)
            lits = [n for n in walk(fi.body) if n["k"] == "Struct" and n["path"] == ty]
            tk = [render(f["expr"]).replace(" ", "") for n in lits for f in n["fields"] if f["member"] == "tokens"]
            chk.expect("R2", f"{ty}::parse/verbatim", tk == ["input.parse()?"], ATTR, fi.line, "literal/pattern tokens are not stored verbatim (rest of the instruction)", found=tk)
    chk.guard("R1", r1)

    def r3():
        from ..core import Check
        sub = Check("C02", repo, chk.tier)
        c02.r3(sub)
        for r_, why in sub.inconclusive:
            chk.inconc("R3", why)
        chk.rule("R3", "default case is emitted when any literal or pattern is present (From) — full emission formula", floor=4)
        for i in sub.instances:
            if i.key.startswith("default-case") or i.key.startswith("variant["):  # which variants get an arm at all decides which values map back
                if i.ok:
                    chk.ok("R3", i.key, i.file, i.line)
                else:
                    chk.bad("R3", i.key, i.file, i.line, i.what, i.expected, i.found)
        sub2 = Check("C02", repo, chk.tier)
        c02.r5_r6(sub2)
        chk.rule("R4", "arms in declaration order, default last", floor=3)
        for i in sub2.instances:
            if i.rule == "R6":
                if i.ok:
                    chk.ok("R4", i.key, i.file, i.line)
                else:
                    chk.bad("R4", i.key, i.file, i.line, i.what, i.expected, i.found)
    chk.guard("R3", r3)
    from .c05 import import_lookup_contracts
    chk.guard("R5", lambda: import_lookup_contracts(chk, "R5", ["lit", "pat"], with_chain=False))

    def r7():
        # the body of the literal conversion is the one written on ITS instruction: the trait-level repeat protocol must not merge a
        # repeated quick return / default case into an instruction that closes the block (imported from C14.R1)
        from ..core import Check
        from . import c14
        sub = Check("C14", chk.repo, chk.tier)
        sub.guard("R1", lambda: c14.r1(sub))
        chk.rule("R7", "trait-level repeat protocol (what is merged into which instruction)", floor=6)
        for r_, why in sub.inconclusive:
            if "get_data_type_attrs" in why:
                chk.inconc("R7", why)
        for i in sub.instances:
            if i.rule == "R1" and i.key.startswith("get_data_type_attrs/Map["):
                if i.ok:
                    chk.ok("R7", "repeat:" + i.key, i.file, i.line)
                else:
                    chk.bad("R7", "repeat:" + i.key, i.file, i.line, i.what, i.expected, i.found)
    chk.guard("R7", r7)
