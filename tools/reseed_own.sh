#!/bin/bash
# maintenance helper: for every seeded change run only the check of the property it breaks (fast confirmation that it still fires)
cd /verif
for d in seeded/*/; do
  id=$(basename $d); prop=$(python3 -c "import json;print(json.load(open('$d/meta.json'))['breaks_property'])")
  git -C /repo apply /verif/$d/patch.diff 2>/dev/null || { echo "$id PATCH DOES NOT APPLY"; continue; }
  O2O_SCRATCH_EVIDENCE=1 ./check $prop >/dev/null 2>&1; c=$?
  git -C /repo checkout -- .
  echo "$id breaks=$prop own-check-exit=$c"
done
