"""C15 — documented misuse is reported as a compile error, completely, in any context."""
import re

from ..pe import Clos, Evaluator, SymObj, Tag, explore, vkey
from ..src import Inconclusive, calls, method_calls, render, walk, walk_with_parents
from ..tables import AST, ATTR, IMPL_FILES, TRAIT_NAMES, VALIDATE, instr_table, kinds, trait_attr_of

TECHNIQUE = "static analysis: syntax-tree rules over validate.rs (path-condition sets of every diagnostic emission, dispatch list by partial evaluation, iteration completeness) compared with confirmed tables"
LEVEL = "other"
EXPLANATION = (
    "Completeness of the validator over an open-ended notion of misuse is not decidable statically; what IS decided is that the rules that exist are "
    "dispatched, iterated and aggregated completely. R1 (dispatch): validate calls validate_struct_attrs for all 12 (kind, fallible) cells with the "
    "matching flag, validate_ghost_attrs for all 6 kinds, and both 12-entry by-kind lists pair each filter kind with the same kind. R2 (traversal): every "
    "container of member instructions that ast.rs builds (struct fields, enum variants, variant fields) is visited by the member-level validators. R3 "
    "(iteration): no first/take/skip/next/break/return inside validation loops. R4 (aggregation): validate has no early exit between its first check and "
    "the final aggregation, and documented misuse classes are not raised with an early `Err(..)?` elsewhere. R5: each documented class has a live emission "
    "site (identified by enclosing fn + guard, never by message wording); validate_struct_attrs' and check_child_errors' guards are checked as truth tables. "
    "R6: validation inspects the instruction expansion will use (= C05.R2). R7: cross-table completeness: a name that is a real instruction at one level "
    "(type / member) but not at the other is diagnosed (Misplaced / Misnamed) at the other level. "
    " R1's dispatch list is read off the partial evaluation of `validate` (loops over constant tables run concretely). R8 imports the contracts of the lookups validation reaches. R9 compares, for every diagnostic emission, the complete path condition (if / if-let / match-arm conditions, early exits, iterator filters; alpha-normalised conjunct sets) with the confirmed table o2ov/data/c15_guards.json: superset = class narrowed, subset = valid input rejected, otherwise INCONCLUSIVE. R10 imports the trait-level repeat protocol (C14).")
EXPLANATION += " R10 also imports the trait-repeat category slots (C14.R2: name <-> slot <-> guarded parameter of the 'will be overriden' conflicts); R12 imports C12.R5 (uniqueness classes on for single-entry vectors, off for per-kind ones)."
NOT_DECIDED = ["that every conceivable misuse has a rule", "that no valid input is rejected by an over-eager rule (only C05.R2's disagreement is reported)", "message wording"]


def const_kind_bool(ev, call):
    from ..pe import Unsupported
    try:
        a0 = ev.eval(call["args"][0], {})
        a1 = ev.eval(call["args"][1], {})
    except Unsupported:
        raise Inconclusive("non-constant (kind, fallible): " + render(call))
    if not isinstance(a0, Tag) or not isinstance(a1, bool):
        raise Inconclusive("non-constant (kind, fallible): " + render(call))
    return a0.name, a1


def r1(chk):
    repo = chk.repo
    chk.rule("R1", "dispatch completeness: validate_struct_attrs x12 with matching flag, validate_ghost_attrs x6, both by-kind lists 12 entries with equal kinds", floor=40)
    fi = repo.fn(VALIDATE, "validate")
    ev = Evaluator(repo, IMPL_FILES)
    # the calls `validate` performs, read off its partial evaluation (validators opaque, loops over constant tables run concretely):
    # independent of whether the twelve dispatches are written out or looped over a table
    from ..pe import explore
    names = {f.name for f in repo.fns(VALIDATE)} - {"validate"}

    def mk():
        e = Evaluator(repo, IMPL_FILES, opaque=names | {"iter_for_kind_core", "iter_for_kind", "get_attrs", "get_members"})
        e.concrete_iters = True
        return e
    leaves = [lf for lf in explore(mk, lambda e: e.run_fn(fi, e.sym_params(fi))) if not lf.unsupported and not lf.panic]
    if not leaves:
        raise Inconclusive("validate is not evaluable")
    chk.unit("validate_leaves", len(leaves))
    calls_ = [e[1] for e in leaves[0].effects if e[0] == "summary"]
    common = [c for c in calls_ if all(any(e[0] == "summary" and e[1] == c for e in lf.effects) for lf in leaves)]
    seen, flags = {}, {}
    for c in common:
        m = re.match(r"validate_struct_attrs\(.*?\.iter_for_kind(?:_core)?\((\w+), (true|false)\), ([^,]+),", c)
        if m:
            kf = (m.group(1), m.group(2) == "true")
            seen[kf] = seen.get(kf, 0) + 1
            flags[kf] = m.group(3)
    if not seen:
        vs = [c for c in common if c.startswith("validate_struct_attrs(")]
        # recognised-bad: the per-counterpart rules run over instructions filtered by kind only (or not at all): `into_existing(T)` and
        # `try_into_existing(T, E)` are independent conversions (C04) but would now count as duplicates of one another
        kind_only = [c for c in vs if re.search(r"applicable_to\[", c) and "fallible" not in c.split(",")[0]] or [c for c in vs if re.match(r"validate_struct_attrs\([\w.()]*\.attrs\.iter\(\)[,)]", c)]
        if kind_only:
            chk.bad("R1", "validate_struct_attrs/partition", VALIDATE, fi.line,
                    "trait-instruction rules (one instruction per counterpart, error type present/absent) are applied to infallible and fallible instructions of a kind together, although they are independent conversions",
                    expected="validate_struct_attrs(<instructions of (kind, fallible)>) for each of the 12 conversions", found=[c[:110] for c in kind_only[:2]])
            return
        raise Inconclusive("no validate_struct_attrs(<attrs>.iter_for_kind_core(K, f), ..) dispatch recognised in validate's evaluation: " + str(common[:3])[:160])
    for (k, f), flag in flags.items():
        chk.expect("R1", f"validate_struct_attrs[{k},{f}]/flag", flag == ("true" if f else "false"), VALIDATE, fi.line, "fallible flag passed differs from the instructions filtered", expected=f, found=flag)
    for k in kinds(repo):
        for f in (False, True):
            chk.expect("R1", f"validate_struct_attrs[{k},{f}]", seen.get((k, f), 0) == 1, VALIDATE, fi.line, "trait-instruction rules not dispatched exactly once for this conversion", found=seen.get((k, f), 0))
    gs = {}
    kind_names = set(kinds(repo))
    for c in common:
        if c.startswith("validate_ghost_attrs("):
            args_ = [a.strip() for a in re.split(r",\s*(?![^()]*\))", c[len("validate_ghost_attrs("):-1])]
            ks = [a for a in args_ if a in kind_names]
            gv = [a for a in args_ if a.endswith(".ghosts_attrs")]
            if len(ks) == 1:
                gs[ks[0]] = gv[0] if gv else (args_[0] if args_ else "")
    for k in kinds(repo):
        chk.expect("R1", f"validate_ghost_attrs[{k}]", gs.get(k, "").endswith(".ghosts_attrs"), VALIDATE, fi.line, "ghosts rules not dispatched for this kind over all ghosts instructions", found=gs.get(k))
    # by-kind lists
    for fn_name in ("validate", "validate_variant_fields"):
        fn = repo.fn(VALIDATE, fn_name)
        ent = {}
        for m in method_calls(fn.body, "map"):
            r = m["recv"]
            if r["k"] == "MethodCall" and r["method"] in ("iter_for_kind_core", "iter_for_kind") and m["args"] and m["args"][0]["k"] == "Closure":
                body = m["args"][0]["body"]
                if body["k"] != "Tuple" or len(body["elems"]) != 2:
                    continue
                try:
                    k, f = const_kind_bool(ev, r)
                    k2 = ev.eval(body["elems"][1], {})
                except Exception:
                    ent = {}
                    break
                ent[(k, f)] = ent.get((k, f), 0) + 1
                chk.expect("R1", f"{fn_name}/by-kind[{k},{f}]/pair", isinstance(k2, Tag) and k2.name == k, VALIDATE, m["line"], "instruction list entry is labelled with another kind than it was filtered by",
                           expected=k, found=vkey(k2))
        if not ent:
            chk.inconc("R1", f"{fn_name}/by-kind: the per-kind instruction list is not built by the recognised iter_for_kind(..).map(|x| (x, Kind)) chain")
            continue
        for k in kinds(repo):
            for f in (False, True):
                chk.expect("R1", f"{fn_name}/by-kind[{k},{f}]", ent.get((k, f), 0) == 1, VALIDATE, fn.line, "conversion missing from the per-kind list the member rules iterate over", found=ent.get((k, f), 0))
    for name, arg in (("validate_child_parents_attrs", ".child_parents_attrs"), ("validate_where_attrs", ".where_attrs"), ("validate_error_instrs", "input")):
        cs = [c for c in common if c.startswith(name + "(")]
        first = cs[0][len(name) + 1:].split(",")[0] if cs else ""
        chk.expect("R1", f"{name}/called", len(cs) == 1 and first.endswith(arg), VALIDATE, fi.line, "type-level rule not dispatched over the whole vector", found=[c[:60] for c in cs])


MEMBER_VALIDATORS = ["validate_member_error_instrs", "validate_dedicated_member_attrs"]


def r2(chk):
    repo = chk.repo
    chk.rule("R2", "every container of member instructions (struct fields, enum variants, variant fields) is visited by the member-level validators", floor=6)
    fi = repo.fn(VALIDATE, "validate")
    gm = repo.fn(AST, "get_members", impl="DataType")
    gm_src = render(gm.body).replace(" ", "")
    via_members = {"Struct.fields": ".fields.iter()" in gm_src and "DataTypeMember::Field" in gm_src, "Enum.variants": ".variants.iter()" in gm_src and "DataTypeMember::Variant" in gm_src}
    loops = [n for n in walk(fi.body) if n["k"] == "For" and "get_members()" in render(n["iter"])]
    called_in_loop = set()
    for lp in loops:
        for c in calls(lp["body"]):
            called_in_loop.add(c["func"]["segs"][-1])
    for cont in ("Struct.fields", "Enum.variants"):
        for v in MEMBER_VALIDATORS:
            chk.expect("R2", f"{cont}:{v}", via_members[cont] and v in called_in_loop, VALIDATE, fi.line, "member-level validator does not reach this container", found=sorted(called_in_loop))
    # variant fields: must be iterated somewhere under validate with the validators applied
    reach = set()
    for fn in repo.fns(VALIDATE):
        for lp in walk(fn.body):
            if lp["k"] == "For":
                it = render(lp["iter"]).replace(" ", "")
                sig_tys = " ".join(i.get("ty", "") for i in fn.node["sig"]["inputs"])
                if re.search(r"\.fields\b", it) and ("Variant" in sig_tys or ".variants" in render(fn.body)):
                    for c in calls(lp["body"]):
                        reach.add(c["func"]["segs"][-1])
                    for m in method_calls(lp["body"]):
                        reach.add(m["method"])
    for v in MEMBER_VALIDATORS:
        chk.expect("R2", f"Variant.fields:{v}", v in reach, VALIDATE, fi.line,
                   "instructions written on the payload fields of enum variants are never validated by this rule (unknown/misplaced instruction or unknown dedicated type there expands silently)",
                   expected="validator applied in a loop over a variant's fields", found=sorted(reach)[:8])
    vv = [n for n in walk(fi.body) if n["k"] == "For" and ".variants" in render(n["iter"])]
    chk.expect("R2", "Variant.fields:validate_variant_fields", any("validate_variant_fields" in render(n["body"]) for n in vv), VALIDATE, fi.line, "tuple/named mismatch rule not applied to every variant")


def r3(chk):
    repo = chk.repo
    chk.rule("R3", "validation loops visit every element: no first/take/skip/nth/next/last/step_by adaptors, no break, no return inside loops", floor=12)
    for fn in repo.fns(VALIDATE):
        n_loops = 0
        bad = []
        for m in method_calls(fn.body):
            if m["method"] in ("first", "take", "skip", "nth", "next", "last", "step_by", "take_while", "skip_while", "find", "position", "find_map", "rposition", "pop"):
                bad.append((m["method"], m["line"]))
        for lp, parents in walk_with_parents(fn.body):
            if lp["k"] in ("For", "While", "Loop") or (lp["k"] == "MethodCall" and lp["method"] == "for_each"):
                n_loops += 1
                body = lp["body"] if "body" in lp else lp["args"][0]
                for n in walk(body):
                    if n["k"] in ("Break", "Return"):
                        bad.append((n["k"].lower(), n["line"]))
        chk.expect("R3", f"{fn.qual}", not bad, VALIDATE, fn.line, "a validation loop can stop early or skip elements", found=bad, detail={"loops": n_loops})


def r4(chk):
    repo = chk.repo
    chk.rule("R4", "aggregation: validate never exits before its final aggregation; documented misuse classes are not raised by an early Err elsewhere", floor=2)
    fi = repo.fn(VALIDATE, "validate")
    # an exit is "early" iff a rule still runs after it: compare with the last emission / dispatch site of validate (source order)
    site_lines = []
    for node in walk(fi.body):
        if node["k"] == "MethodCall" and node["method"] == "insert" and render(node["recv"]).replace(" ", "").lstrip("*") == "errors":
            site_lines.append(node["line"])
        if node["k"] == "Call" and node["func"]["k"] == "Path" and any(render(a).replace(" ", "").replace("&mut", "").lstrip("*") == "errors" for a in node["args"]):
            site_lines.append(node["line"])
    if not site_lines:
        raise Inconclusive("validate: no emission or dispatch site found")
    last_site = max(site_lines)
    early = [n for n in walk(fi.body) if n["k"] in ("Return", "Try") and n["line"] <= last_site]
    chk.expect("R4", "validate/no-early-exit", not early, VALIDATE, fi.line, "validate can return before all rules have run", found=[(n["k"], n["line"]) for n in early])
    from ..src import render_stmt
    tail = "".join(render_stmt(st).replace(" ", "") for st in fi.body["stmts"] if st["line"] > last_site)
    good = "errors.is_empty()" in tail and "combine" in tail and re.search(r"errors\.(iter|into_iter)\(\)|in&?errors\b", tail) is not None
    only_first = re.search(r"errors\.(iter|into_iter)\(\)\.(next|nth|take)\(|errors\.first\(|errors\.(iter|into_iter)\(\)\.(last|max|min)", tail) is not None and "combine" not in tail
    chk.shape("R4", "validate/aggregate-all", good, only_first, VALIDATE, last_site, what="final step does not combine every collected diagnostic", found=tail[-160:])
    # every helper only ever inserts (never clears/removes) diagnostics
    for fn in repo.fns(VALIDATE):
        for m in method_calls(fn.body):
            if render(m["recv"]).replace(" ", "") in ("errors", "*errors") and m["method"] in ("clear", "remove", "retain", "drain", "truncate", "pop"):
                chk.bad("R4", f"{fn.qual}:errors.{m['method']}", VALIDATE, m["line"], "collected diagnostics are dropped")
    # documented classes (conflicting repeat parameters, unterminated repeat block) raised with an early Err at parse time.
    # Keyed by the MESSAGE (the same defect moved into a helper function is the same finding), ordinal in source order for duplicates.
    ords = {}
    for f in (ATTR, AST):
        for fn in repo.fns(f):
            if repo.is_test_item(getattr(fn, "cfgs", [])) if hasattr(fn, "cfgs") else False:
                continue
            for node in walk(fn.body):
                e_ = None
                if node["k"] == "Try" and node["expr"]["k"] == "Call" and render(node["expr"]["func"]) == "Err":
                    e_ = node["expr"]
                elif node["k"] == "Return" and "expr" in node and node["expr"]["k"] == "Call" and render(node["expr"]["func"]) == "Err":
                    e_ = node["expr"]
                if e_ is None:
                    continue
                lits = [str(x["lit"]["v"]) for x in walk(e_) if x["k"] == "Lit" and isinstance(x["lit"].get("v"), str)]
                lits += [m_.group(1) for x in walk(e_) if x["k"] == "Macro" and x["last"] == "format" for m_ in [re.match(r'\s*"((?:[^"\\]|\\.)*)"', x.get("src", ""))] if m_]
                msg = next((l for l in lits if re.search(r"will be overriden|must be terminated", l)), None)
                if msg is None:
                    continue
                o = ords.get(msg, 0)
                ords[msg] = o + 1
                cls = "conflicting repeat parameters" if "overriden" in msg else "unterminated repeat block"
                chk.bad("R4", f"early-Err[{msg[:44]}]" + (f"#{o}" if o else ""), f, node["line"],
                        f"documented misuse class ({cls}) aborts parsing with an early Err: other broken rules of the same input are not reported in that expansion", found=render(e_)[:100])
    for fn in repo.fns(AST):
        n = 0
        for node in walk(fn.body):
            if node["k"] == "Macro" and node["last"] == "panic" and "repeat" in node["src"]:
                chk.bad("R4", f"{fn.qual}:panic#{n}", AST, node["line"], "documented misuse class (unterminated repeat block) is a panic, not a diagnostic", found=node["src"][:80])
                n += 1


def insert_sites(fn):
    """(guards, node) for every errors.insert in fn, guards = rendered enclosing if-conditions (negated for else)."""
    out = []
    for node, parents in walk_with_parents(fn.body):
        if node["k"] == "MethodCall" and node["method"] == "insert" and render(node["recv"]).replace(" ", "").lstrip("*") == "errors":
            guards = []
            chain = list(parents) + [node]
            for i, p in enumerate(parents):
                if p["k"] == "If":
                    nxt = chain[i + 1]
                    if nxt is p["then"]:
                        guards.append(render(p["cond"]))
                    elif "else" in p and nxt is p["else"]:
                        guards.append("!(" + render(p["cond"]) + ")")
                if p["k"] == "Arm":
                    guards.append("arm:" + __import__("o2ov.src", fromlist=["render_pat"]).render_pat(p["pat"])[:80])
            out.append((guards, node))
    return out


CLASSES = [
    ("no trait instruction", "validate", r"attrs\.attrs\.is_empty\(\)"),
    ("duplicate instruction for a counterpart", "validate_struct_attrs", r"!unique_ident\.insert\("),
    ("missing error type", "validate_struct_attrs", r"fallible && .*err_ty\.is_none\(\)"),
    ("superfluous error type", "validate_struct_attrs", r"!fallible && .*err_ty\.is_some\(\)"),
    ("dedicated to unknown counterpart (ghosts)", "validate_ghost_attrs", r"!type_paths\.contains\("),
    ("dedicated to unknown counterpart (child_parents)", "validate_child_parents_attrs", r"!type_paths\.contains\("),
    ("dedicated to unknown counterpart (where_clause)", "validate_where_attrs", r"!type_paths\.contains\("),
    ("dedicated to unknown counterpart (member)", "validate_dedicated_member_attrs", r"!type_paths\.contains\("),
    ("dedicated to unknown counterpart (child)", "validate_fields", r"!type_paths\.contains\("),
    ("duplicate default (ghosts)", "validate_ghost_attrs", r"count\(\) > 1"),
    ("duplicate dedicated (ghosts)", "validate_ghost_attrs", r"!unique_dedicated_attr_type_path\.insert\("),
    ("duplicate default (child_parents)", "validate_child_parents_attrs", r"count\(\) > 1"),
    ("duplicate dedicated (child_parents)", "validate_child_parents_attrs", r"!unique_dedicated_attr_type_path\.insert\("),
    ("duplicate default (where_clause)", "validate_where_attrs", r"count\(\) > 1"),
    ("duplicate dedicated (where_clause)", "validate_where_attrs", r"!unique_dedicated_attr_type_path\.insert\("),
    ("duplicate default (member)", "validate_dedicated_member_attrs", r"count\(\) > 1"),
    ("duplicate dedicated (member)", "validate_dedicated_member_attrs", r"!unique_dedicated_attr_type_path\.insert\("),
    ("misplaced / misnamed (type level)", "validate_error_instrs", r"arm:.*Mis(placed|named)"),
    ("misplaced / misnamed (member level)", "validate_member_error_instrs", r"arm:.*Mis(placed|named)"),
    ("unsupported member instruction for this member", "bark_at_member_attr", r""),
    ("ghost without default", "validate_fields", r"from_type_paths\.contains\(|arm:None"),
    ("child without child_parents", "check_child_errors", r"arm:None|!.*check_match"),
    ("tuple/named mismatch (struct)", "validate_fields", r"member\.is_none\(\)|!\(let Some\(field_attr\)"),
    ("tuple/named mismatch (variant)", "validate_variant_fields", r"member\.is_none\(\)|!\(let Some\(field_attr\)"),
    ("untyped nested parent", "validate_parent_attrs", r"\.1\.is_none\(\)"),
    ("nested parent field without name", "validate_parent_attrs", r"!f\.named_fields\(\)"),
]


def r5(chk):
    repo = chk.repo
    chk.rule("R5", "each documented misuse class has a live emission site (enclosing fn + guard)", floor=24)
    sites = {}
    for fn in repo.fns(VALIDATE):
        sites[fn.name] = insert_sites(fn)
    chk.unit("diagnostic_emission_sites", sum(len(v) for v in sites.values()))
    for cls, fn_name, rx in CLASSES:
        ss = sites.get(fn_name)
        if ss is None:
            chk.bad("R5", f"class[{cls}]", VALIDATE, 1, "validator fn missing", found=fn_name)
            continue
        hit = [s for s in ss if any(re.search(rx, g) for g in s[0])] if rx else ss
        # (the deciding rule for the guards is R9; this one only recognises the text of today's guard)
        if hit:
            chk.ok("R5", f"class[{cls}]", VALIDATE, repo.fn(VALIDATE, fn_name).line)
        elif not ss:
            chk.bad("R5", f"class[{cls}]", VALIDATE, repo.fn(VALIDATE, fn_name).line, "the validator of this misuse class emits no diagnostic at all", expected=rx or "any", found=[])
        # else: today's guard text is not recognised; the guard sets themselves are decided by R9
    # reachability of the validators from validate
    fi = repo.fn(VALIDATE, "validate")
    called = {c["func"]["segs"][-1] for c in calls(fi.body)}
    indirect = set()
    for n in list(called):
        f2 = repo.fn_opt(VALIDATE, n)
        if f2:
            indirect |= {c["func"]["segs"][-1] for c in calls(f2.body)}
    for _cls, fn_name, _rx in CLASSES:
        chk.expect("R5", f"reachable[{fn_name}]", fn_name == "validate" or fn_name in called | indirect, VALIDATE, fi.line, "validator is never called from validate")
    # truth table of validate_struct_attrs' loop body
    fs = repo.fn(VALIDATE, "validate_struct_attrs")
    loops = [n for n in walk(fs.body) if n["k"] == "For"]
    if len(loops) != 1:
        raise Inconclusive("validate_struct_attrs: expected one loop over the instructions")
    lp = loops[0]

    def mk():
        return Evaluator(repo, IMPL_FILES)

    def run(ev):
        env = {"fallible": SymObj("fallible", ("bool",)), "errors": SymObj("errors", ("named", "Map")), "unique_ident": SymObj("unique_ident", ("named", "Set")),
               "attr": SymObj("attr", ("named", "TraitAttrCore"))}
        ev.eval_block(lp["body"], env)
        return None
    for lf in explore(mk, run):
        d = lf.decisions
        f = d.get("fallible")
        et = d.get("attr.err_ty")
        dup = d.get("unique_ident.insert(attr.ty)")
        msgs = [e[2][0] for e in lf.effects if e[0] == "errors" and e[1] == "insert"]
        n_exp = (1 if dup is False else 0) + (1 if (f and et == "None") else 0) + (1 if (f is False and et == "Some") else 0)
        key = f"validate_struct_attrs[fallible={f},err_ty={et},first_of_its_type={dup}]"
        chk.expect("R5", key, len(msgs) == n_exp, VALIDATE, lp["line"], "error-type / uniqueness rule fires for the wrong combination", expected=n_exp, found=msgs)
    # check_child_errors: every prefix of the path is checked
    ok_, bad_, found_ = all_prefixes_verdict(repo)
    chk.shape("R5", "check_child_errors/all-prefixes", ok_, bad_, VALIDATE, repo.fn(VALIDATE, "check_child_errors").line,
              what="not every prefix of a child path is checked against child_parents", found=found_)


def all_prefixes_verdict(repo):
    """check_child_errors must look up EVERY prefix of the child path: a loop over all positions (enumerate() or 0..len()) that asks
    get_child_path_str(Some(<position>)). Recognised-bad: only some positions (last / first / take / skip / 1.. / ..len()-1)."""
    fc = repo.fn(VALIDATE, "check_child_errors")
    loops = [n for n in walk(fc.body) if n["k"] == "For"]
    its = [render(n["iter"]).replace(" ", "") for n in loops]
    body = render(fc.body).replace(" ", "")
    good = False
    for n, it in zip(loops, its):
        vars_ = [q["name"] for q in walk(n["pat"]) if q["k"] == "PIdent"]
        if re.fullmatch(r"(\w+\.)*child_path(\.child_path)?\.iter\(\)\.enumerate\(\)", it) or re.fullmatch(r"0\.\.(\w+\.)*child_path(\.child_path)?\.len\(\)", it):
            if any(f"get_child_path_str(Some({v}))" in body for v in vars_):
                good = True
    bad = not good and bool(re.search(r"\.last\(\)|\.first\(\)|\.take\(|\.skip\(|\b1\.\.|len\(\)-1|get_child_path_str\(None\)", body))
    return good, bad, its


def r7(chk):
    repo = chk.repo
    chk.rule("R7", "cross-table completeness: a name that is a real instruction at one level only is diagnosed at the other level", floor=12)
    t_rows, t_fi = instr_table(repo, "parse_data_type_instruction")
    m_rows, m_fi = instr_table(repo, "parse_member_instruction")
    DIAG = {"Misplaced", "Misnamed"}

    def summarise(rows):
        real, diag = {}, {}
        for r in rows:
            lf = r["leaf"]
            if lf.panic or lf.unsupported or r["name"] is None or r["name"].startswith("\x00"):
                continue
            var, _ = trait_attr_of(lf.value)
            if r["flags"].get("bark", True) is False:
                continue
            if var in DIAG:
                diag.setdefault(r["name"], set()).add(var)
            elif var not in ("Unrecognized", "UnrecognizedWithError", None):
                real.setdefault(r["name"], set()).add(var)
        return real, diag
    t_real, t_diag = summarise(t_rows)
    m_real, m_diag = summarise(m_rows)
    for n in sorted(set(m_real) - set(t_real)):
        chk.expect("R7", f"type-level[{n}]", n in t_diag, ATTR, t_fi.line, "member-level instruction written on the type is silently ignored instead of being reported as misplaced", found=sorted(t_diag.get(n, [])))
    for n in sorted(set(t_real) - set(m_real) - {"allow_unknown"}):
        chk.expect("R7", f"member-level[{n}]", n in m_diag, ATTR, m_fi.line, "type-level instruction written on a member is silently ignored instead of being reported as misplaced", found=sorted(m_diag.get(n, [])))
    chk.unit("names_type_level", len(t_real))
    chk.unit("names_member_level", len(m_real))


def run(chk):
    chk.guard("R1", lambda: r1(chk))
    chk.guard("R2", lambda: r2(chk))
    chk.guard("R3", lambda: r3(chk))
    chk.guard("R4", lambda: r4(chk))
    chk.guard("R5", lambda: r5(chk))
    from .c05 import r1_r2 as c05_chain
    chk.rule("R6", "validation inspects the same member instruction as expansion (C05.R2)", floor=12)

    def r6():
        from ..core import Check
        sub = Check("C05", chk.repo, chk.tier)
        c05_chain(sub)
        for i in sub.instances:
            if i.rule == "R2" and "applicable_field_attr" in i.key:
                if i.ok:
                    chk.ok("R6", i.key, i.file, i.line)
                else:
                    chk.bad("R6", i.key, i.file, i.line, i.what, i.expected, i.found)
    chk.guard("R6", r6)
    chk.guard("R7", lambda: r7(chk))

    def r8():
        # the lookups validate.rs calls: their dedicated-then-default contract decides which instruction a rule inspects
        from .c05 import ACCESSORS, PREDICATES, import_lookup_contracts
        names = {a for _i, a in ACCESSORS + PREDICATES}
        from ..tables import ATTR
        called = {m["method"] for fi in chk.repo.fns(VALIDATE) for m in method_calls(fi.body)}
        for _ in range(3):  # lookups reached through wrappers of attr.rs (applicable_field_attr -> field_attr)
            called |= {m["method"] for fi in chk.repo.fns(ATTR) if fi.name in called for m in method_calls(fi.body)}
        used = sorted(called & names)
        if len(used) < 5:
            raise Inconclusive(f"validate.rs calls only {used} of the instruction lookups (>= 5 confirmed by hand)")
        import_lookup_contracts(chk, "R8", used, with_chain=False, desc="contracts of the instruction lookups that validation rules inspect (dedicated-then-default, per-kind filter)")
    chk.guard("R8", r8)
    chk.guard("R9", lambda: r9(chk))

    def r10():
        # the unterminated / conflicting trait-level repeat classes are raised by the repeat protocol itself (C14.R1): a new repeat() while a
        # block is open is an error exactly when the instruction does not carry stop_repeat
        from ..core import Check
        from . import c14
        sub = Check("C14", chk.repo, chk.tier)
        sub.guard("R1", lambda: c14.r1(sub))
        chk.rule("R10", "trait-level repeat misuse (new repeat() inside an open block without stop_repeat) is reported for every combination of the instruction's flags", floor=6)
        for r_, why in sub.inconclusive:
            if "get_data_type_attrs" in why:
                chk.inconc("R10", why)
        for i in sub.instances:
            if i.rule == "R1" and i.key.startswith("get_data_type_attrs/Map["):
                if i.ok:
                    chk.ok("R10", "repeat:" + i.key, i.file, i.line)
                else:
                    chk.bad("R10", "repeat:" + i.key, i.file, i.line, i.what, i.expected, i.found)
        # the "... will be overriden" conflict diagnostics of a selective trait-level repeat are raised by merge() through the category
        # accessor: name list <-> slot <-> guarded parameter must agree (C14.R2 trait-repeat instances)
        sub2 = Check("C14", chk.repo, chk.tier)
        sub2.guard("R2", lambda: c14.r2(sub2))
        for r_, why in sub2.inconclusive:
            if r_ == "R2":
                chk.inconc("R10", why)
        for i in sub2.instances:
            if i.rule == "R2" and i.key.startswith("trait-repeat["):
                if i.ok:
                    chk.ok("R10", "repeat-conflict:" + i.key, i.file, i.line)
                else:
                    chk.bad("R10", "repeat-conflict:" + i.key, i.file, i.line, i.what, i.expected, i.found)
    chk.guard("R10", r10)

    def r12():
        # the uniqueness classes ("at most one default", "already defined") are switched on per instruction vector: on for the
        # single-entry vectors (misuse reported), off for per-kind vectors (a legal pair is not rejected) -- decided in C12.R5
        from .c12 import r5 as uniq
        uniq(chk, "R12")
    chk.guard("R12", r12)

    def r11():
        # allow_unknown is a switch of the whole item: once an #[o2o(allow_unknown)] has been seen the look-alike diagnostics stay off
        # (an input that breaks no rule is never rejected). The flag handed to the parsers may only ever be lowered.
        from ..tables import ATTR
        chk.rule("R11", "the `bark` flag (look-alike diagnostics on) is only ever lowered: it starts true and every assignment sets it to false", floor=1)
        fi = chk.repo.fn(ATTR, "get_data_type_attrs")
        flags = [st for st in walk(fi.body) if st["k"] == "Let" and st["pat"].get("k") == "PIdent" and st["pat"].get("mut") and st.get("init") is not None and render(st["init"]).strip() == "true"]
        names = {st["pat"]["name"] for st in flags}
        # the flag is the mutable bool returned next to the attributes / passed to parse_data_type_instruction
        passed = {render(c["args"][-1]).strip() for c in calls(fi.body, "parse_data_type_instruction") if c["args"]}
        names &= passed or names
        if len(names) != 1:
            raise Inconclusive(f"get_data_type_attrs: the look-alike diagnostics flag is not identifiable ({sorted(names)})")
        nm = names.pop()
        asg = [n for n in walk(fi.body) if n["k"] == "Assign" and render(n["l"]).strip() == nm] + [n for n in walk(fi.body) if n["k"] == "Binary" and n["op"] in ("&=", "|=", "^=") and render(n["l"]).strip() == nm]
        if not asg:
            chk.bad("R11", f"get_data_type_attrs:{nm}/never-lowered", ATTR, fi.line, "allow_unknown has no effect: the flag is never lowered")
        for k_, n in enumerate(asg):
            rhs = render(n["r"]).replace(" ", "")
            good = (n["k"] == "Assign" and rhs == "false") or (n["k"] == "Binary" and n["op"] == "&=")
            bad = n["k"] == "Assign" and rhs != "false"
            chk.shape("R11", f"get_data_type_attrs:{nm}=#{k_}", good, bad, ATTR, n["line"], what="the look-alike diagnostics flag can be raised again after #[o2o(allow_unknown)] was seen (a later #[o2o(..)] attribute re-enables the diagnostics: valid input rejected)",
                      expected=f"{nm} = false", found=render(n)[:100])
    chk.guard("R11", r11)


# ---------------------------------------------------------------- R9: complete guard sets of the diagnostic emission sites
def _kind_family(e):
    """`k == Kind::FromOwned || k == Kind::FromRef` (any order) is Kind::is_from() written out; same for the other two families."""
    if e["k"] != "Binary" or e["op"] != "||":
        return None
    sides = []
    for x in (e["l"], e["r"]):
        if x["k"] == "Binary" and x["op"] == "==":
            a, b = render(x["l"]).replace(" ", ""), render(x["r"]).replace(" ", "")
            if re.fullmatch(r"&?Kind::\w+", a):
                a, b = b, a
            if re.fullmatch(r"&?Kind::\w+", b):
                sides.append((a.lstrip("&*"), b.lstrip("&").split("::")[1]))
    if len(sides) == 2 and sides[0][0] == sides[1][0]:
        fam = {frozenset(("FromOwned", "FromRef")): "is_from", frozenset(("OwnedIntoExisting", "RefIntoExisting")): "is_into_existing"}.get(frozenset(s_[1] for s_ in sides))
        if fam:
            return f"{sides[0][0]}.{fam}()"
    return None


def _conjuncts(e, neg=False):
    """Top-level conjuncts of condition e (negated: De Morgan over ||), each rendered without whitespace."""
    fam = _kind_family(e)
    if fam:
        return [("!" if neg else "") + fam]
    if not neg and e["k"] == "Binary" and e["op"] == "&&":
        return _conjuncts(e["l"]) + _conjuncts(e["r"])
    if neg and e["k"] == "Binary" and e["op"] == "||":
        return _conjuncts(e["l"], True) + _conjuncts(e["r"], True)
    if e["k"] == "Unary" and e["op"] == "!":
        return _conjuncts(e["expr"], not neg)
    if e["k"] == "LetExpr":
        from ..src import render_pat
        t = "let " + render_pat(e["pat"]) + "=" + render(e["expr"])
        return [("!(" + t + ")" if neg else t).replace(" ", "")]
    t = render(e).replace(" ", "")
    if neg:
        t = "!" + (t if re.fullmatch(r"[\w.:&*]+(\([^()]*\))?", t) else "(" + t + ")")
    return [t]


def _chain_filters(e):
    """Conditions imposed by the iterator chain e: bodies of .filter(|..| c) closures; other element-dropping adaptors are named."""
    out = []
    cur = e
    while cur is not None and cur["k"] in ("MethodCall", "Ref", "Paren"):
        if cur["k"] != "MethodCall":
            cur = cur["expr"]
            continue
        m = cur["method"]
        if m == "filter" and cur["args"] and cur["args"][0]["k"] == "Closure":
            out += _conjuncts(cur["args"][0]["body"])
        elif m in ("filter_map", "take_while", "skip_while", "take", "skip", "step_by", "find", "nth", "flat_map") :
            out.append(f"adaptor:{m}(" + render(cur["args"][0]).replace(" ", "")[:80] + ")" if cur["args"] else f"adaptor:{m}")
        cur = cur["recv"]
    return out


def guard_sets(fn):
    """{message-prefix: [sorted conjunct list, ...]} for every errors.insert in fn: if / else / if-let / match-arm conditions plus the
    filters of every enclosing loop's or closure's iterator chain (the complete path condition of the emission, as a conjunction)."""
    from ..src import render_pat
    out = {}
    bound = _bound_names(fn)
    for node, parents in walk_with_parents(fn.body):
        is_insert = node["k"] == "MethodCall" and node["method"] == "insert" and render(node["recv"]).replace(" ", "").lstrip("*") == "errors"
        # a call that hands the diagnostics map to another validator is an emission site too (its guards are the callee's outer guards)
        is_call = node["k"] == "Call" and node["func"]["k"] == "Path" and any(render(a).replace(" ", "").replace("&mut", "").lstrip("*") == "errors" for a in node["args"])
        if not (is_insert or is_call):
            continue
        chain = list(parents) + [node]
        g = []
        for i, p in enumerate(parents):
            nxt = chain[i + 1]
            if p["k"] == "If":
                if nxt is p["then"]:
                    g += _conjuncts(p["cond"])
                elif "else" in p and nxt is p["else"]:
                    g += _conjuncts(p["cond"], True)
            elif p["k"] == "Match":
                arm = next((a for a in p["arms"] if a is nxt), None)
                if arm is not None:
                    g += _arm_conj(p, arm)
            elif p["k"] == "Block":
                # early exits that precede the site in the same block hold negated afterwards
                for st in p["stmts"]:
                    if st is nxt or st.get("expr") is nxt or st.get("init") is nxt:
                        break
                    e_ = st.get("expr") if st["k"] in ("ExprStmt", "Expr", "Semi") else None
                    if e_ is not None and e_.get("k") == "If" and "else" not in e_ and _exits(e_["then"]):
                        g += _conjuncts(e_["cond"], True)
                    elif e_ is not None and e_.get("k") == "Match":
                        stay = [a for a in e_["arms"] if not _exits(a["body"])]
                        if len(stay) == 1 and len(e_["arms"]) > 1:
                            g += _arm_conj(e_, stay[0])
                    elif st["k"] == "Let" and isinstance(st.get("init"), dict) and st["init"].get("k") == "Match":
                        m_ = st["init"]
                        stay = [a for a in m_["arms"] if not _exits(a["body"])]
                        if len(stay) == 1 and len(m_["arms"]) > 1:
                            g += _arm_conj(m_, stay[0])
            elif p["k"] == "For" and nxt is p["body"]:
                g += _chain_filters(p["iter"])
            elif p["k"] == "While" and nxt is p.get("body"):
                g += _conjuncts(p["cond"])
            elif p["k"] == "MethodCall" and nxt["k"] == "Closure" and any(a is nxt for a in p["args"]) and p["method"] in ("for_each", "map", "filter_map", "flat_map", "any", "all", "try_for_each", "inspect"):
                g += _chain_filters(p["recv"])
        msg = ""
        if is_call:
            msg = "call:" + node["func"]["segs"][-1]
            out.setdefault(msg[:64], []).append(sorted({_anon(c, bound) for c in g}))
            continue
        if node["args"]:
            a0 = node["args"][0]
            if a0["k"] == "Macro":
                m = re.match(r'\s*"((?:[^"\\]|\\.)*)"', a0.get("src", ""))
                msg = m.group(1) if m else a0.get("src", "")[:40]
            elif a0["k"] == "MethodCall" and a0["recv"]["k"] == "Lit":
                msg = str(a0["recv"]["lit"]["v"])
            else:
                msg = render(a0)
        out.setdefault(re.sub(r"\s+", " ", msg)[:48], []).append(sorted({_anon(c, bound) for c in g}))
    return {k: sorted(v) for k, v in out.items()}


def _exits(b):
    """Does block / expression b end by leaving the enclosing iteration or function (continue / return / break)?"""
    if b is None:
        return False
    if b.get("k") in ("Return", "Continue", "Break"):
        return True
    sts = b.get("stmts")
    if sts:
        last = sts[-1]
        return _exits(last.get("expr", last) if isinstance(last, dict) else None)
    return False


def _arm_conj(match, arm):
    """The condition under which `arm` of `match` is taken, written like an if-let: let <pat> = <scrutinee> (a wildcard arm is the
    negation of the other arms)."""
    from ..src import render_pat
    scrut = render(match["scrut"]).replace(" ", "")
    pat = render_pat(arm["pat"]).replace(" ", "")
    out = []
    if pat in ("_", "None") and len(match["arms"]) == 2:
        other = [a for a in match["arms"] if a is not arm][0]
        opat = render_pat(other["pat"]).replace(" ", "")
        out.append(f"!(let{opat}={scrut})" if pat == "_" or opat.startswith("Some(") else f"let{pat}={scrut}")
    else:
        out.append(f"let{pat}={scrut}"[:140])
    if "guard" in arm:
        out += _conjuncts(arm["guard"])
    return out


def _bound_names(fn):
    """Names bound inside fn (closure parameters, let / for / if-let / match-arm patterns): renaming them is behaviour-preserving."""
    names = set()
    for n in walk(fn.body):
        pats = []
        if n["k"] == "Closure":
            pats = n["params"]
        elif n["k"] in ("LetExpr", "For", "Arm"):  # plain `let` locals keep their (meaningful) names
            pats = [n["pat"]]
        for p in pats:
            for q in walk(p):
                if q["k"] == "PIdent" and q["name"][:1].islower():
                    names.add(q["name"])
    return names


def _anon(conj, bound):
    """Replace locally bound names by $1, $2, .. in order of first appearance within the conjunct (alpha-renaming-insensitive)."""
    order = {}

    def sub(m):
        w = m.group(0)
        if w not in bound:
            return w
        if w not in order:
            order[w] = f"${len(order) + 1}"
        return order[w]
    return re.sub(r"(?<![\w$.])[A-Za-z_]\w*(?!\w*!?\()(?![\w:])|(?<![\w$.])[A-Za-z_]\w*(?=\.)", sub, conj)


def all_guard_sets(repo):
    """{message or call:callee -> sorted list of guard sets} over every fn of validate.rs (a site may move between fns)."""
    out = {}
    for fi in repo.fns(VALIDATE):
        for msg, sets in guard_sets(fi).items():
            out.setdefault(msg, []).extend(sets)
    return {k: sorted(v) for k, v in out.items()}


def r9(chk):
    import json as _json
    import os as _os
    repo = chk.repo
    chk.rule("R9", "the complete path condition of every diagnostic emission (if / if-let / match-arm conditions, early exits before it, and the filters of all enclosing "
                   "iterations) is the condition that defines its misuse class: an extra conjunct narrows the class (misuse next to some other instruction is no longer "
                   "reported), a missing one rejects valid input", floor=30)
    ref_p = _os.path.join(_os.path.dirname(_os.path.dirname(_os.path.abspath(__file__))), "data", "c15_guards.json")
    with open(ref_p) as fh:
        ref = _json.load(fh)
    cur = all_guard_sets(repo)
    fline = repo.fn(VALIDATE, "validate").line
    n = 0
    for msg, want_list in sorted(ref.items()):
        key = f"emit[{msg}]"
        got_list = cur.get(msg)
        if got_list is None:
            if msg.startswith("call:"):
                chk.inconc("R9", f"{key}: the validator is no longer called with the diagnostics map (renamed, inlined or removed)")
            else:
                chk.bad("R9", key, VALIDATE, fline, "this diagnostic is no longer emitted anywhere in validate.rs: the misuse class it reports goes unreported", found="no errors.insert with this message")
            continue
        if len(got_list) != len(want_list):
            chk.inconc("R9", f"{key}: {len(got_list)} emission sites, {len(want_list)} confirmed")
            continue
        # pair each confirmed guard set with the most similar current one
        remaining = list(got_list)
        for j, want in enumerate(want_list):
            w = set(want)
            best = max(remaining, key=lambda g_: len(w & set(g_)) - 0.01 * len(w ^ set(g_)))
            remaining.remove(best)
            g = set(best)
            n += 1
            k2 = key + (f"#{j}" if len(want_list) > 1 else "")
            if w == g:
                chk.ok("R9", k2, VALIDATE, fline)
            elif w < g:
                chk.bad("R9", k2, VALIDATE, fline, "diagnostic is emitted under an additional condition: inputs of this misuse class for which it is false are no longer reported",
                        expected=sorted(w), found={"extra_conditions": sorted(g - w)})
            elif g < w:
                chk.bad("R9", k2, VALIDATE, fline, "a condition of this diagnostic was dropped: inputs outside the misuse class are now rejected",
                        expected=sorted(w), found={"dropped_conditions": sorted(w - g)})
            else:
                chk.inconc("R9", f"{k2}: guard set changed in a way the rule does not order (neither narrower nor wider): -{sorted(w - g)[:3]} +{sorted(g - w)[:3]}")
    for msg in sorted(set(cur) - set(ref)):
        chk.inconc("R9", f"emit[{msg}]: emission site not in the confirmed table")
    chk.unit("emission_sites_with_guard_sets", n)
