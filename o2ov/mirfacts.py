"""E-MIR: type-resolved call / assert facts of o2o-impl, produced by the nightly rustc_private driver in /verif/mir.

The driver is injected with RUSTC_WORKSPACE_WRAPPER under `cargo +nightly check` (nothing is executed: rustc stops after analysis;
the facts are read off the MIR of every body owner).  It is used by the THOROUGH tier only, as a completeness cross-check of the
syntactic site enumerations (C16 panic-capable sites, C19 hash-order-exposing calls): a syntactic enumerator sees method NAMES, the
MIR sees the resolved callee with its Self type, whatever alias / field / helper the value came through.
Both build configurations (feature syn, feature syn2) are analysed; a fact is tagged with the configurations it occurs in.
"""
import json
import os
import re
import shutil
import subprocess
import tempfile

from .linetables import _cached
from .src import Inconclusive

VERIF = os.path.dirname(os.path.dirname(os.path.abspath(__file__)))
DRIVER = os.path.join(VERIF, "mir", "target", "release", "o2o-mir-facts")
CONFIGS = [("syn", ["--features", "syn"]), ("syn2", ["--no-default-features", "--features", "syn2"])]


def _sysroot():
    try:
        return subprocess.run(["rustc", "+nightly", "--print", "sysroot"], capture_output=True, text=True, check=True).stdout.strip()
    except Exception as e:
        raise Inconclusive(f"nightly toolchain not usable: {e}")


def ensure_driver():
    if os.path.exists(DRIVER):
        src = os.path.join(VERIF, "mir", "src", "main.rs")
        if os.path.getmtime(DRIVER) >= os.path.getmtime(src):
            return
    env = dict(os.environ, CARGO_NET_OFFLINE="true")
    r = subprocess.run(["cargo", "+nightly", "build", "--release", "--offline"], cwd=os.path.join(VERIF, "mir"), env=env, capture_output=True, text=True)
    if r.returncode != 0 or not os.path.exists(DRIVER):
        raise Inconclusive("MIR fact driver does not build: " + r.stderr[-300:])


def _run(repo_root):
    ensure_driver()
    sysroot = _sysroot()
    out = []
    for name, flags in CONFIGS:
        tmp = tempfile.mkdtemp(prefix="o2ov-mir-")
        try:
            facts = os.path.join(tmp, "facts.jsonl")
            env = dict(os.environ, CARGO_NET_OFFLINE="true", O2O_MIR_OUT=facts, O2O_MIR_CRATES="o2o_impl",
                       RUSTFLAGS="-Zmir-opt-level=0 -Awarnings", RUSTC_WORKSPACE_WRAPPER=DRIVER, CARGO_TARGET_DIR=os.path.join(tmp, "tgt"),
                       LD_LIBRARY_PATH=os.path.join(sysroot, "lib") + ":" + os.environ.get("LD_LIBRARY_PATH", ""))
            env.pop("RUSTC_WRAPPER", None)
            r = subprocess.run(["cargo", "+nightly", "check", "--offline", "-p", "o2o-impl", "--lib"] + flags, cwd=repo_root, env=env, capture_output=True, text=True)
            if r.returncode != 0:
                raise Inconclusive(f"cargo +nightly check ({name}) failed: " + r.stderr[-400:])
            if not os.path.exists(facts):
                raise Inconclusive(f"MIR driver produced no fact file for configuration {name} (wrapper skipped?)")
            with open(facts) as fh:
                for ln in fh:
                    d = json.loads(ln)
                    d["cfg"] = name
                    out.append(d)
        finally:
            shutil.rmtree(tmp, ignore_errors=True)
    return out


def facts(repo):
    """All facts of both configurations (cached on the digest of the analysed sources)."""
    fs = _cached(repo, "mirfacts", lambda: _run(repo.root))
    if len(fs) < 3000:
        raise Inconclusive(f"only {len(fs)} MIR facts (expected > 3000): the driver did not see the crate")
    return fs


# ---- classification of resolved callees ------------------------------------------------------------------------------------

PANIC_CALLEE = [
    (r"^(std|core)::option::Option::<.*>::(unwrap|expect)$", "unwrap"),
    (r"^(std|core)::result::Result::<.*>::(unwrap|expect|unwrap_err|expect_err)$", "unwrap"),
    (r"^(std|core)::(rt::panic_fmt|rt::begin_panic|panicking::\w+|rt::panic_display|rt::panic_explicit)", "panic"),
    (r" as (std|core)::ops::Index(Mut)?<.*>>::index(_mut)?$", "index"),
]

# std / syn / proc-macro2 APIs that panic on a value-dependent precondition and that no rule of C16 models: a call to one of
# these is an unanalysed panic-capable site (reported INCONCLUSIVE, never as a violation: the precondition may well hold).
UNMODELLED = [
    r"::(Vec|VecDeque)::<.*>::(remove|swap_remove|insert|split_off|drain|truncate_front|swap)(::<.*>)?$",
    r"^(std|alloc)::string::String::(remove|insert|insert_str|split_off|drain|replace_range)(::<.*>)?$",
    r"^(core|std)::slice::<impl \[.*\]>::(split_at|split_at_mut|copy_from_slice|clone_from_slice|swap|chunks|chunks_exact|windows|rotate_left|rotate_right|select_nth_unstable\w*)(::<.*>)?$",
    r"^(core|std)::str::<impl str>::(split_at|split_at_mut)$",
    r"^(core|std)::cell::RefCell::<.*>::(borrow|borrow_mut)$",
    r"^(core|std)::iter::Iterator::step_by$",
    r"^std::process::(exit|abort)$",
    r"^(core|std)::(option::Option|result::Result)::<.*>::(unwrap_unchecked|unwrap_err_unchecked)$",
    r"^(core|std)::hint::unreachable_unchecked$",
    r"^proc_macro2::(Literal::\w+_(un)?suffixed|Ident::new|Ident::new_raw)$",
    r"^syn::(Ident::new|LitInt::new|LitStr::new|Index::from)$",
    r"^(core|std)::(char::from_digit|char::methods::<impl char>::to_digit|num::<impl \w+>::(pow|abs|from_str_radix|div_euclid|rem_euclid))",
]

HASH_EXPOSING = re.compile(
    r"^std::collections::(hash_map::|hash_set::)?Hash(Map|Set)::<.*>::(iter|iter_mut|keys|values|values_mut|into_keys|into_values|drain|retain|extract_if)(::<.*>)?$"
    r"|^<&?(mut )?std::collections::(hash_map::|hash_set::)?Hash(Map|Set)<.*> as std::iter::IntoIterator>::into_iter$"
    r"|^<std::collections::(hash_map::|hash_set::)?Hash(Map|Set)<.*> as std::fmt::Debug>::fmt$")


def panic_kind(callee):
    for rx, k in PANIC_CALLEE:
        if re.search(rx, callee):
            return k
    return None


def unmodelled(callee):
    return any(re.search(rx, callee) for rx in UNMODELLED)
