"""C10 — `@` and `~` are substituted everywhere; all other user tokens pass through."""
import re

from ..pe import Clos, Evaluator, ListV, SymObj, Tag, Toks, explore, show_toks, vkey
from ..quote import holes, templates_in
from ..src import Inconclusive, calls, method_calls, render, walk, walk_with_parents
from ..tables import ATTR, EXPAND, IMPL_FILES, direction, kinds

LEVEL = "other"
EXPLANATION = (
    "R1: the substitution function is one closure applied to every token tree in order; its `match` is partially evaluated over the complete "
    "token-tree domain (4 TokenTree kinds x 4 Delimiters x {~, @, other punct}): groups recurse with the same (at, tilde) and are rebuilt with the "
    "same delimiter, `~`/`@` become the substitutes, every other token is re-emitted as the original value. R2: quote_action's table over "
    "(6 kinds x 3 impl types) gives what `@` and `~` stand for. R3 (must-pass-through, taint over names): every read in expand.rs of a "
    "user-expression field (action, update, quick_return, default_case) reaches a template only as an argument of quote_action, or is a presence "
    "test. R4: try_parse_action's branch table (where an expression starts and ends).")
EXPLANATION += ' R6 imports the nested-parent path contract (C03.R10): `~` of a nested #[parent] leaf is the source path through every enclosing member.'
NOT_DECIDED = ["Delimiter::None groups are flattened (outside the statement's parentheses/brackets/braces)",
               "that proc-macro2 re-lexes the re-emitted Punct with identical spacing (library behaviour)"]

EXPR_FIELDS = {"action", "update", "quick_return", "default_case"}


def r1(chk):
    repo = chk.repo
    chk.rule("R1", "replace_tilde_or_at_in_expr: total over TokenTree x Delimiter; groups recurse with the same substitutes and keep their delimiter; only ~/@ change", floor=9)
    fi = repo.fn(EXPAND, "replace_tilde_or_at_in_expr")
    params = fi.params
    if len(params) != 3:
        raise Inconclusive("replace_tilde_or_at_in_expr: expected (input, at, tilde)")
    inp, at, tilde = params
    # roles by name, not by position
    at_c = [p_ for p_ in params if re.search(r"(^|_)at(_|$)", p_)]
    ti_c = [p_ for p_ in params if "tilde" in p_]
    if len(at_c) == 1 and len(ti_c) == 1 and at_c != ti_c:
        at, tilde = at_c[0], ti_c[0]
        inp = [p_ for p_ in params if p_ not in (at, tilde)][0]
    fes = [m for m in method_calls(fi.body, "for_each") if m["args"] and m["args"][0]["k"] == "Closure"]
    mps = [m for m in method_calls(fi.body, "map") if m["args"] and m["args"][0]["k"] == "Closure" and re.search(r"\b" + re.escape(inp) + r"\b", render(m["recv"]))]
    if len(fes) == 1 and not mps:
        form, site = "for_each", fes[0]
    elif len(mps) == 1 and not fes:
        form, site = "map", mps[0]
    else:
        raise Inconclusive("replace_tilde_or_at_in_expr: expected one for_each(closure) or one map(closure) over the input tokens")
    src = render(site["recv"]).replace(" ", "")
    chk.shape("R1", "iteration", src in (f"{inp}.clone().into_iter()", f"{inp}.into_iter()"), bool(re.search(r"\.(skip|take|rev|filter|step_by|skip_while|take_while)\(", src)), EXPAND, site["line"],
              what="tokens are not visited all and in order", expected=f"{inp}.clone().into_iter()", found=src)
    cl = site["args"][0]
    if form == "for_each":
        pushes = [m for m in method_calls(cl["body"], "push")]
        chk.expect("R1", "one-push-per-token", len(pushes) == 1, EXPAND, cl["line"], "each visited token must be appended exactly once", found=len(pushes))
        tail = fi.body["stmts"][-1]
        tail_src = render(tail.get("expr")).replace(" ", "") if tail["k"] == "ExprStmt" else ""
        chk.shape("R1", "result", tail_src == "TokenStream::from_iter(tokens)", False, EXPAND, tail["line"], what="result is not the in-order concatenation of the rewritten tokens", found=tail_src)
    else:
        whole = render(fi.body["stmts"][-1].get("expr") or fi.body["stmts"][-1]).replace(" ", "")
        chk.shape("R1", "result", whole.endswith(".collect()") or whole.endswith(".collect::<TokenStream>()") or "TokenStream::from_iter(" in whole, False, EXPAND, site["line"],
                  what="result is not the in-order concatenation of the rewritten tokens", found=whole[-80:])

    def mk():
        return Evaluator(repo, IMPL_FILES, opaque={"replace_tilde_or_at_in_expr"})

    def run(ev):
        env = ev.sym_params(fi)
        env["tokens"] = ListV([])
        c = Clos(cl["params"], cl["body"], env, ev)
        r_ = ev.call_closure(c, [SymObj("x", ("named", "TokenTree"))])
        if form == "map":
            return ListV([r_ if isinstance(r_, Toks) else Toks(ev.to_toks(r_))])
        return env["tokens"]

    leaves = explore(mk, run)
    chk.unit("substitution_cells", len(leaves))
    rec = f"replace_tilde_or_at_in_expr(x#Group.0.stream(), {at}, {tilde})"
    seen = set()
    for lf in leaves:
        d = lf.decisions
        x = d.get("x")
        if lf.panic or lf.unsupported or not isinstance(lf.value, ListV) or len(lf.value.elems) != 1 or not isinstance(lf.value.elems[0], Toks):
            chk.inconc("R1", f"cell[{x}]: cell not evaluable or does not yield one token stream: " + str(lf)[:160])
            continue
        out = lf.value.elems[0].toks
        if x == "Group":
            delim = d.get("x#Group.0.delimiter()")
            key = f"cell[Group,{delim}]"
            seen.add(key)
            if delim == "None":
                ok = out == [("sym", rec)]
                chk.expect("R1", key, ok, EXPAND, cl["line"], "None-delimited group: content must still be rewritten recursively", expected=rec, found=show_toks(out))
            else:
                dch = {"Parenthesis": "(", "Brace": "{", "Bracket": "["}.get(delim)
                ok = len(out) == 1 and out[0][0] == "group" and out[0][1] == dch and out[0][2] == [("sym", rec)]
                chk.expect("R1", key, ok, EXPAND, cl["line"], "group must be rebuilt with the same delimiter around the recursively rewritten content (same @/~ substitutes)",
                           expected=f"{dch} {rec} ", found=show_toks(out))
        elif x == "Punct":
            t = [v for a, v in d.items() if "'~'" in a]
            a_ = [v for a, v in d.items() if "'@'" in a]
            if t and t[0] is True:
                key, exp = "cell[Punct,~]", [("opt", tilde)]
            elif a_ and a_[0] is True:
                key, exp = "cell[Punct,@]", [("opt", at)]
            else:
                key, exp = "cell[Punct,other]", [("sym", "x#Punct.0")]
            seen.add(key)
            chk.expect("R1", key, out == exp, EXPAND, cl["line"], "punctuation cell", expected=show_toks(exp), found=show_toks(out))
        else:
            key = f"cell[{x}]"
            seen.add(key)
            chk.expect("R1", key, out == [("sym", "x")], EXPAND, cl["line"], "identifiers and literals must be re-emitted unchanged", expected="‹x›", found=show_toks(out))
    want = {"cell[Group,Parenthesis]", "cell[Group,Brace]", "cell[Group,Bracket]", "cell[Group,None]", "cell[Punct,~]", "cell[Punct,@]", "cell[Punct,other]", "cell[Ident]", "cell[Literal]"}
    for k in sorted(want - seen):
        if any(r_ == "R1" for r_, _w in chk.inconclusive):
            break  # some cell was not evaluable: which cells are missing is then not decidable
        chk.bad("R1", k, EXPAND, cl["line"], "cell of the token-tree domain is not covered")


def r2(chk):
    repo = chk.repo
    chk.rule("R2", "quote_action: @ -> value (From) / self (otherwise); ~ -> <@>.<path> (struct), <dst>::<path> (enum), <path> (variant payload binding)", floor=18)
    fi = repo.fn(EXPAND, "quote_action")

    def mk():
        return Evaluator(repo, IMPL_FILES, opaque={"replace_tilde_or_at_in_expr"})
    def args_(ev):
        a = ev.sym_params(fi)
        if "self" in a:  # quote_action as a method of the context: the receiver plays the role of `ctx`
            a["self"] = SymObj("ctx", a["self"].ty)
        return a
    leaves = explore(mk, lambda ev: ev.run_fn(fi, args_(ev)))
    p = [x for x in fi.params if x not in ("self", "ctx")]  # action, tilde_postfix
    if len(p) != 2:
        raise Inconclusive("quote_action: expected (action, tilde_postfix) besides the context")
    for lf in leaves:
        k = lf.get("ctx.kind")
        it = lf.get("ctx.impl_type")
        key = f"quote_action[{k},{it}]"
        if lf.panic or lf.unsupported:
            chk.bad("R2", key, EXPAND, fi.line, "cell not evaluable", found=str(lf.panic or lf.unsupported))
            continue
        obj = "value" if direction(k) == "From" else "self"
        path = {"Struct": f"«{obj} .‹{p[1]}?›»", "Enum": f"«‹ctx.dst_ty› ::‹{p[1]}?›»", "Variant": f"«‹{p[1]}?›»"}.get(it)
        exp = f"replace_tilde_or_at_in_expr({p[0]}, Some(«{obj}»), Some({path}))"
        chk.expect("R2", key, vkey(lf.value) == exp, EXPAND, fi.line, "wrong substitutes for this conversion / impl type", expected=exp, found=vkey(lf.value))
    chk.unit("quote_action_cells", len(leaves))


def pat_bindings(p, out):
    if p["k"] == "PIdent":
        if not p["name"][:1].isupper():
            out.append(p["name"])
        if "sub" in p:
            pat_bindings(p["sub"], out)
    for key in ("elems", "cases"):
        for x in p.get(key, []):
            pat_bindings(x, out)
    if isinstance(p.get("pat"), dict):
        pat_bindings(p["pat"], out)
    for f in p.get("fields", []):
        pat_bindings(f["pat"], out)


def tainted_pattern_names(p, out):
    """Names bound by struct patterns to expression fields (MemberAttrCore { action, .. })."""
    if p["k"] == "PStruct":
        for f in p["fields"]:
            if f["member"] in EXPR_FIELDS:
                pat_bindings(f["pat"], out)
            else:
                tainted_pattern_names(f["pat"], out)
    for key in ("elems", "cases"):
        for x in p.get(key, []):
            tainted_pattern_names(x, out)
    if isinstance(p.get("pat"), dict):
        tainted_pattern_names(p["pat"], out)


def is_expr_read(e):
    """Does e (after peeling refs/as_ref/unwrap) read a user-expression field or a tainted name?"""
    return e["k"] == "Field" and e["member"] in EXPR_FIELDS


def peel(e):
    while True:
        if e["k"] in ("Ref", "Try"):
            e = e["expr"]
        elif e["k"] == "MethodCall" and e["method"] in ("as_ref", "clone", "unwrap", "as_mut", "as_deref") and not e["args"]:
            e = e["recv"]
        else:
            return e


def r3(chk):
    repo = chk.repo
    chk.rule("R3", "user expressions reach templates only through quote_action (taint over field reads and the names they are bound to)", floor=12)
    nreads = 0
    for fi in repo.fns(EXPAND):
        tainted = set()
        local_closures = {}
        # seed: pattern bindings of expression fields; `if let Some(v) = <expr-field>`; match <expr-field> { Some(v) => .. }
        changed = True
        while changed:
            changed = False
            before = len(tainted)
            for n in walk(fi.body):
                if n["k"] in ("Let",) and "init" in n:
                    tmp = []
                    tainted_pattern_names(n["pat"], tmp)
                    src = peel(n["init"])
                    if is_expr_read(src) or (src["k"] == "Path" and src["path"] in tainted):
                        pat_bindings(n["pat"], tmp)
                    if n["init"]["k"] == "Closure" and n["pat"]["k"] == "PIdent":
                        local_closures[n["pat"]["name"]] = n["init"]
                    tainted.update(tmp)
                if n["k"] == "LetExpr":
                    tmp = []
                    tainted_pattern_names(n["pat"], tmp)
                    src = peel(n["expr"])
                    if is_expr_read(src) or (src["k"] == "Path" and src["path"] in tainted):
                        pat_bindings(n["pat"], tmp)
                    tainted.update(tmp)
                if n["k"] == "Match":
                    src = peel(n["scrut"])
                    scr_t = is_expr_read(src) or (src["k"] == "Path" and src["path"] in tainted)
                    elems = n["scrut"]["elems"] if n["scrut"]["k"] == "Tuple" else None
                    for a in n["arms"]:
                        tmp = []
                        tainted_pattern_names(a["pat"], tmp)
                        if scr_t:
                            pat_bindings(a["pat"], tmp)
                        if elems is not None and a["pat"]["k"] == "PTuple":
                            for se, sp in zip(elems, a["pat"]["elems"]):
                                s2 = peel(se)
                                if is_expr_read(s2) or (s2["k"] == "Path" and s2["path"] in tainted):
                                    pat_bindings(sp, tmp)
                        tainted.update(tmp)
                if n["k"] == "Closure":
                    for p_ in n["params"]:
                        tmp = []
                        tainted_pattern_names(p_, tmp)
                        tainted.update(tmp)
                # calls of local closures: propagate taint positionally
                if n["k"] == "Call" and n["func"]["k"] == "Path" and n["func"]["path"] in local_closures:
                    cl = local_closures[n["func"]["path"]]
                    for p_, a in zip(cl["params"], n["args"]):
                        s2 = peel(a)
                        if is_expr_read(s2) or (s2["k"] == "Path" and s2["path"] in tainted) or \
                                (s2["k"] == "MethodCall" and s2["method"] == "map_or" and any(is_expr_read(peel(w)) for w in walk(s2) if w["k"] in ("Field", "Ref"))):
                            tmp = []
                            pat_bindings(p_, tmp)
                            tainted.update(tmp)
            changed = len(tainted) != before
        # sinks
        ordinal = {}

        def key_for(what):
            o = ordinal.get(what, 0)
            ordinal[what] = o + 1
            return f"{fi.qual}:{what}" + (f"#{o}" if o else "")
        for node, parents in walk_with_parents(fi.body):
            src_name = None
            if node["k"] == "Field" and node["member"] in EXPR_FIELDS:
                src_name = render(node)
            elif node["k"] == "Path" and len(node["segs"]) == 1 and node["segs"][0] in tainted:
                src_name = node["segs"][0]
            if src_name is None:
                continue
            nreads += 1
            # climb over refs / as_ref / unwrap / clone
            i = len(parents) - 1
            cur = node
            while i >= 0 and (parents[i]["k"] in ("Ref", "Try") or (parents[i]["k"] == "MethodCall" and parents[i]["recv"] is cur and parents[i]["method"] in ("as_ref", "unwrap", "clone", "as_mut", "as_deref"))):
                cur = parents[i]
                i -= 1
            par = parents[i] if i >= 0 else None
            key = key_for(f"read {src_name}")
            if par is None:
                chk.ok("R3", key, EXPAND, node["line"], nontrivial=False)
            elif par["k"] == "MethodCall" and par["recv"] is cur and par["method"] in ("is_some", "is_none"):
                chk.ok("R3", key, EXPAND, node["line"], detail="presence test")
            elif par["k"] == "Call" and par["func"]["k"] == "Path" and par["func"]["segs"][-1] == "quote_action":
                chk.expect("R3", key, par["args"] and par["args"][0] is cur, EXPAND, node["line"], "user expression passed to quote_action in a non-expression position", found=render(par)[:80])
            elif par["k"] == "MethodCall" and par["method"] == "quote_action" and par["recv"] is not cur:
                chk.expect("R3", key, par["args"] and par["args"][0] is cur, EXPAND, node["line"], "user expression passed to quote_action in a non-expression position", found=render(par)[:80])
            elif par["k"] in ("Let", "LetExpr", "Match", "Tuple", "Arm"):
                chk.ok("R3", key, EXPAND, node["line"], detail="bound to a tracked name / destructured")
            elif par["k"] == "Call" and par["func"]["k"] == "Path" and par["func"]["path"] in local_closures:
                chk.ok("R3", key, EXPAND, node["line"], detail="passed to a local closure whose parameter is tracked")
            elif par["k"] == "MethodCall" and par["method"] in ("map_or", "map", "is_some_and", "and_then") and par["recv"] is not cur:
                chk.ok("R3", key, EXPAND, node["line"], detail="inside an Option adaptor closure (result tracked by the enclosing call)")
            elif par["k"] == "Closure":
                chk.ok("R3", key, EXPAND, node["line"], detail="closure result; consumer tracked")
            elif par["k"] == "Struct":
                chk.ok("R3", key, EXPAND, node["line"], detail="moved into a struct literal (synthetic variant struct)")
            else:
                chk.inconc("R3", f"{key} at {EXPAND}:{node['line']}: user expression used in a context the taint rule does not classify: " + par["k"] + ": " + render(par)[:80])
        # a tainted name must never be a template hole
        for m, tpl in templates_in(fi.body):
            hs = set(holes(tpl)) & tainted
            if hs:
                chk.bad("R3", key_for("template-hole " + ",".join(sorted(hs))), EXPAND, m["line"],
                        "user expression interpolated raw into a template (its @/~ are not substituted)", found=sorted(hs))
    chk.unit("expression_reads", nreads)


def r4(chk):
    repo = chk.repo
    chk.rule("R4", "try_parse_action branch table: empty -> none; leading @/~ -> rest of input; braceless allowed and no brace -> rest; else content of one brace group", floor=5)
    fi = repo.fn(ATTR, "try_parse_action")

    def mk():
        return Evaluator(repo, IMPL_FILES)
    leaves = explore(mk, lambda ev: ev.run_fn(fi, ev.sym_params(fi)))
    inp, allow = fi.params
    for lf in leaves:
        d = lf.decisions
        if lf.panic or lf.unsupported:
            chk.bad("R4", "try_parse_action[?]", ATTR, fi.line, "not evaluable", found=str(lf)[:120])
            continue
        empty = d.get(f"{inp}.is_empty()")
        at = d.get(f"{inp}.peek(Token![@])")
        ti = d.get(f"{inp}.peek(Token![~])")
        ab = d.get(allow)
        br = d.get(f"{inp}.peek(Brace)")
        key = "try_parse_action[" + ",".join(f"{n}={v}" for n, v in (("empty", empty), ("@", at), ("~", ti), ("braceless", ab), ("brace", br)) if v is not None) + "]"
        if empty:
            exp = "Ok(None)"
        elif at or ti:
            exp = f"Ok(Some({inp}.parse()))"
        elif ab and br is False:
            exp = f"Ok(Some({inp}.parse()))"
        else:
            exp = f"Ok(Some(braced({inp}).parse()))"
        chk.expect("R4", key, vkey(lf.value) == exp, ATTR, fi.line, "expression boundary differs", expected=exp, found=vkey(lf.value))
    fb = repo.fn(ATTR, "try_parse_braced_action")
    leaves = explore(mk, lambda ev: ev.run_fn(fb, ev.sym_params(fb)))
    ok = len(leaves) == 1 and vkey(leaves[0].value).replace(" ", "") == f"braced({fb.params[0]}).parse::<TokenStream>()".replace(" ", "") or \
        (len(leaves) == 1 and vkey(leaves[0].value).startswith(f"braced({fb.params[0]}).parse"))
    chk.expect("R4", "try_parse_braced_action", ok, ATTR, fb.line, "braced action must be the content of exactly one brace group", found=[str(l)[:100] for l in leaves])


def run(chk):
    chk.guard("R1", lambda: r1(chk))
    chk.guard("R2", lambda: r2(chk))
    chk.guard("R3", lambda: r3(chk))
    chk.guard("R4", lambda: r4(chk))

    def r5():
        # what `~` and `@` are replaced WITH is chosen by the callers of quote_action (the line / arm renderers): the cells of the struct line
        # table (C01.R1) and of the enum arm table (C02.R1) that carry an inline expression are imported
        from ..core import Check
        from . import c01, c02
        chk.rule("R5", "every rendered line / arm with an inline expression passes the designated substitutes (@ = source value, ~ = @ + counterpart member path / payload binding)", floor=20)
        from ..core import load_known
        recorded = {(e["property"], e["key"]) for e in load_known() if e.get("status") == "known"}
        for mod, fn_, pid in ((c01, "r1_r2", "C01"), (c02, "r1", "C02")):
            sub = Check(pid, chk.repo, chk.tier)
            sub.guard("R1", lambda: getattr(mod, fn_)(sub))
            for r_, why in sub.inconclusive:
                if r_ == "R1":
                    chk.inconc("R5", why)
            for i in sub.instances:
                if i.rule == "R1" and "action=Some" in i.key:
                    if i.ok:
                        chk.ok("R5", f"{pid}:" + i.key, i.file, i.line)
                    elif (pid, i.key) in recorded:
                        continue  # a defect already recorded (and printed) under the property whose table it belongs to
                    else:
                        chk.bad("R5", f"{pid}:" + i.key, i.file, i.line, i.what, i.expected, i.found)
    chk.guard("R5", r5)

    def r6():
        # `~` of a leaf inside a nested parameterised #[parent] is the source path through every enclosing member: built by
        # convert_parent_child_field (contract decided in C03.R10)
        from .c03 import parent_path_contract
        parent_path_contract(chk, "R6")
    chk.guard("R6", r6)
