"""C01 — struct conversions move every value to the field the instructions designate."""
import re

from ..linetables import fn_table, struct_iter_table
from ..pe import show_toks
from ..src import render_pat, Inconclusive, render, walk
from ..tables import ATTR, EXPAND, direction, is_ref_kind

LEVEL = "other"
EXPLANATION = (
    "The struct line renderer is a finite decision table whose entries are token templates. The table is extracted from the current source as "
    "the complete set of leaves of ONE ITERATION of struct_init_block_inner's member loop (render_struct_line, the child/parent fragment renderers "
    "and the ApplicableAttr helpers inlined under the loop's own ghost/parent guards; ~12k leaves over member shape x instruction state x 6 kinds x 4 "
    "hints x post-init x struct/variant mode x child path x parent). Every hole is resolved to its provenance and mapped to a designator role "
    "(Own, That = renamed member, DeclPos/EmitPos, FBind = payload binding f{n}, CP = counterpart child prefix, ACT = user expression with its @/~ "
    "substitutes). R1: each leaf's line is compared with an independent reference model of the documented semantics (destination designator from the "
    "destination's namespace, source path from the source's, rename and child prefix on the counterpart side, expression with the right substitutes, "
    "ghost default only where a ghost applies). R2: flow: ghost / parent fields are skipped exactly in the directions that do not materialise them. "
    "R3: struct-level #[ghosts] lines (table over member kind x conversion). R4: the as_type expansion table. R5: wrapper (brace / paren / none) per "
    "(kind, hint, shape). Values themselves are not decided.")
EXPLANATION += ' R12 emission counter: the position handed to render_struct_line is initialised to 0 and `+= 1`-ed exactly once next to every fragment pushed in the member loop (no other write), so skipped ghost/parent members never shift a tuple slot.'
NOT_DECIDED = ["runtime values of fields", "anything inside user expressions", "that rustc resolves the emitted names as intended", "field order across iterations beyond C03.R5/C19.R3"]

F = "members.peek()!.field_data#Field.0"


def norm(s):
    s = s.replace(F, "F").replace("members.peek()!", "M")
    s = re.sub(r"F\.attrs\.field_attr_core\([^()]*\)!", "ATTR", s)
    s = re.sub(r"F\.attrs\.ghost\([^()]*\)!", "GHOST", s)
    s = re.sub(r"F\.attrs\.child\([^()]*\)!\.child_path\.child_path", "CP", s)
    s = re.sub(r"fident\(f\{\}; (Unnamed\()?(Index\{index: )?F\.idx\}?\)?\)", "FBind(DeclPos)", s)
    s = re.sub(r"fident\(f\{\}; F\.member#Unnamed\.0\.index\)", "FBind(Own)", s)
    s = re.sub(r"fident\(f\{\}; idx\)", "FBind(EmitPos)", s)
    s = re.sub(r"fident\(f\{\}; ATTR\.member!#Unnamed\.0\.index\)", "FBind(That)", s)
    s = re.sub(r"fident\(([^;()]*); ([^()]*)\)", lambda m_: f"FBind?[{m_.group(1)}]({m_.group(2)})", s)
    s = re.sub(r"ATTR\.member!(#(Named|Unnamed)\.0)?", "That", s)
    s = re.sub(r"F\.member(#(Named|Unnamed)\.0)?", "Own", s)
    s = re.sub(r"‹idx:F\.idx›", "‹DeclPos›", s)
    s = re.sub(r"‹idx:idx›", "‹EmitPos›", s)
    s = re.sub(r"replace_tilde_or_at_in_expr\((ATTR|GHOST)\.action!, Some\((«[^»]*»)\), (Some\((«[^»]*»)\)|None)\)", lambda m: f"ACT[{m.group(1)}](@={m.group(2)};~={m.group(4) or '∅'})", s)
    s = re.sub(r"\s+", " ", s).strip()
    return s


def cell_of(lf):
    d = {k.replace(F, "F"): v for k, v in lf.d.items()}
    k = d.get("ctx.kind")
    attr = None           # None | dict(member, action)
    # the applicable attr: first Some in the chain
    for a, v in d.items():
        if a.startswith("F.attrs.field_attr_core(") and v == "Some":
            raw = [x for x in lf.d if x.startswith(F + ".attrs.field_attr_core(") and lf.d[x] == "Some"][0]
            mem = lf.d.get(raw + "!.member")
            act = lf.d.get(raw + "!.action")
            mk = lf.d.get(raw + "!.member!")
            attr = {"member": mem, "member_kind": mk, "action": act}
    ghost = None
    for a, v in lf.d.items():
        if a.startswith(F + ".attrs.ghost(") and not a.endswith("action"):
            if v == "Some":
                ghost = {"action": lf.d.get(a + "!.action")}
    child = None
    for a, v in lf.d.items():
        if a.startswith(F + ".attrs.child(") and a.endswith(")"):
            child = v == "Some"
    parent = None
    for a, v in lf.d.items():
        if a.startswith(F + ".attrs.has_parent_attr("):
            parent = v
    return {"kind": k, "dir": direction(k) if k else None, "hint": d.get("type_hint"), "member": d.get("F.member"), "attr": attr, "ghost": ghost, "child": child,
            "parent": parent, "post_init": d.get("ctx.has_post_init"), "impl": d.get("ctx.impl_type"), "fallible": d.get("ctx.fallible"), "field_ctx": d.get("field_ctx")}


def cell_key(c):
    a = c["attr"]
    astr = "None" if a is None else "Some(member=%s%s,action=%s)" % (a["member"] or "?", ("/" + a["member_kind"]) if a.get("member_kind") else "", a["action"] or "?")
    g = "" if c["ghost"] is None else ",ghost(action=%s)" % c["ghost"]["action"]
    return f"({c['member']},{astr},{c['dir']},{c['hint']}{g}" + (",child" if c["child"] else "") + (",parent" if c["parent"] else "") + (",post_init" if c["post_init"] else "") + \
        (",variant" if c["impl"] == "Variant" else "") + ")"


def expected_line(c):
    """Reference model: the line the documentation designates for this cell, in the normalised notation. None = outside the domain."""
    d, hint, member, attr, impl = c["dir"], c["hint"], c["member"], c["attr"], c["impl"]
    variant = impl == "Variant"
    obj = "" if variant else ("value . " if d == "From" else "self . ")
    at = "value" if d == "From" else "self"
    cp = "‹CP› ." if c["child"] else ""
    has_member = attr is not None and attr["member"] == "Some"
    has_action = attr is not None and attr["action"] == "Some"
    form = {"Struct": "struct", "Tuple": "tuple", "Unit": "unit"}.get(hint) or ("struct" if member == "Named" else "tuple")

    def tilde(path):
        # what `~` stands for: <obj><path> in struct mode, the bare binding in variant mode
        return ("«" + (obj + path).strip() + "»")

    if d in ("Into", "Existing"):
        if form == "unit":
            return ""
        # source side: this struct's own field (payload binding in variant mode)
        src = "‹FBind(Own)›" if (variant and member == "Unnamed") else "‹Own›"
        if has_action:
            r = f"‹ACT[ATTR](@=«{at}»;~={tilde(src)})›"
        else:
            r = (obj + src).strip()
        if form == "struct":
            if member == "Unnamed" and not has_member:
                return None  # no name for the destination field: rejected by validation (C16 '6'/'8')
            dest = "‹That›" if has_member else "‹Own›"
            if d == "Into":
                return f"obj .{dest} = {r} ;" if c["post_init"] else f"{dest} : {r} ,"
            return f"other .{cp.replace('‹CP› .', '‹CP› .')}{dest} = {r} ;".replace("other .‹CP› .", "other .‹CP› .")
        # tuple destination
        if d == "Into":
            if c["post_init"]:
                pos = "‹That›" if has_member else "‹POS›"
                return f"obj .{pos} = {r} ;"
            if has_member:
                # a positional element cannot honour an index rename; the documented form for that is `Counterpart { <idx>: value, .. }`
                return f"‹That› : {r} ,"
            return f"{r} ,"
        # a named field poured into a tuple counterpart is positional (as `into` is); a tuple field may be redirected by an index rename
        pos = "‹That›" if (has_member and member == "Unnamed") else "‹POS›"
        return f"other .{cp}{pos} = {r} ;"
    # From
    lhs = "‹Own› : " if member == "Named" else ""
    if c["parent"]:
        if attr is not None and member == "Named" and hint != "Tuple":
            pass
        conv = ("value" if is_ref_kind(c["kind"]) else "(& value)") + (" . try_into () ?" if c["fallible"] else " . into ()")
        return None if attr is not None else f"{lhs}{conv} ,"
    if c["ghost"] is not None:
        if c["ghost"]["action"] != "Some":
            return "<skip>"
        return f"{lhs}‹ACT[GHOST](@=«value»;~=«{obj.strip()}»)› ,".replace("~=«»", "~=«»")
    if hint == "Unit" and not has_action:
        return None  # a unit counterpart has no field to read from: outside the domain
    # counterpart designator
    if has_member:
        tuple_src = form == "tuple" or (hint == "Unit" and member == "Unnamed")
        if variant and (attr.get("member_kind") == "Unnamed" or (tuple_src and attr.get("member_kind") is None)):
            c_des = "‹FBind(That)›"   # payload of a tuple-form counterpart variant is bound as f{index}
        else:
            c_des = "‹That›"
    elif form == "tuple" or (hint == "Unit" and member == "Unnamed"):
        if member == "Named":
            c_des = "‹FBind(DeclPos)›" if variant else "‹DeclPos›"
        else:
            c_des = "‹FBind(Own)›" if variant else "‹Own›"
    else:
        if member == "Unnamed":
            return None  # tuple field read from a struct-form counterpart without a name: rejected by validation
        c_des = "‹Own›"
    path = (obj + cp + " " + c_des).replace(". ‹CP›", ".‹CP›") if False else (obj + (cp + " " if cp else "") + c_des)
    path = re.sub(r"\s+", " ", path).strip()
    if has_action:
        return f"{lhs}‹ACT[ATTR](@=«value»;~=«{path}»)› ,"
    if attr is not None and not has_member:
        return None  # instruction with neither name nor expression: C16 '12'
    return f"{lhs}{path} ,"


def squash(s):
    return re.sub(r"\s+", "", s or "")


def r1_r2(chk):
    repo = chk.repo
    chk.rule("R1", "each (member, instruction, kind, hint, child, parent, post-init, mode) cell emits the line the documentation designates (destination/source designators, rename, child prefix, @/~ substitutes)", floor=300)
    chk.rule("R2", "flow: ghost and parent fields are skipped exactly where they do not materialise; ghosts without default are skipped in From", floor=20)
    T = struct_iter_table(repo)
    line = T["line"]
    n_cmp = 0
    seen = {}
    for lf in T["leaves"]:
        if lf.get("members.peek()!.field_data") != "Field":
            continue
        c = cell_of(lf)
        if c["kind"] is None:
            continue
        key = cell_key(c)
        if lf.kind == "panic":
            continue  # C16's obligations
        if lf.kind == "unsupported":
            chk.inconc("R1", f"cell {key}: {lf.unsupported}")
            continue
        if c["impl"] == "Variant" and (c["post_init"] or c["dir"] == "Existing"):
            continue  # variant contexts never have post-init (R6); enum x into_existing is outside the documented domain (reported by C17.R3)
        # ---- flow
        if lf.value == "continue":
            exp_skip = (c["dir"] != "From" and (c["ghost"] is not None or c["parent"])) or (c["dir"] == "From" and c["ghost"] is not None and c["ghost"]["action"] != "Some")
            chk.expect("R2", f"skip{key}", bool(exp_skip), EXPAND, line, "field skipped although this conversion must materialise it", found="continue")
            continue
        if c["dir"] != "From" and (c["ghost"] is not None or c["parent"]):
            chk.bad("R2", f"skip{key}", EXPAND, line, "ghost / parent field rendered into a conversion that must skip it", found=lf.value)
            continue
        if c["dir"] == "From" and c["ghost"] is not None and c["ghost"]["action"] != "Some":
            chk.bad("R2", f"skip{key}", EXPAND, line, "ghost without a default rendered in From", found=lf.value)
            continue
        # ---- line
        if c["child"] and c["dir"] != "From":
            # only rendered at the innermost nesting level (deeper levels delegate to render_child / render_existing_child)
            if not lf.frags or any(t[0] == "sym" and ("struct_init_block_inner(" in t[1]) for fr in lf.frags for t in fr) or \
                    any("struct_init_block_inner(" in show_toks(fr) for fr in lf.frags):
                continue
        if not lf.frags or len(lf.frags) != 1:
            chk.bad("R1", f"line{key}", EXPAND, line, "one iteration must push exactly one fragment", found=[show_toks(f) for f in (lf.frags or [])][:3])
            continue
        got = norm(show_toks(lf.frags[0]))
        # a discriminant the leaf never consulted must not matter: complete the cell in every way and require the same verdict
        variants_ = [c]
        if c["attr"] is not None:
            for fld, dom in (("member", ("None", "Some")), ("action", ("None", "Some"))):
                nxt = []
                for cv in variants_:
                    if cv["attr"][fld] is None:
                        for val in dom:
                            c2 = dict(cv)
                            c2["attr"] = dict(cv["attr"])
                            c2["attr"][fld] = val
                            nxt.append(c2)
                    else:
                        nxt.append(cv)
                variants_ = nxt
        if len(variants_) > 1:
            exps = {expected_line(cv) for cv in variants_}
            exps.discard(None)
            if len({squash(e_) for e_ in exps}) > 1:
                chk.bad("R1", f"line{key}", EXPAND, line, "the emitted line does not depend on a part of the instruction (member name / expression) that the designated line depends on",
                        expected=sorted(exps), found=got)
                continue
        exp = expected_line(variants_[0]) if len(variants_) > 1 else expected_line(c)
        if len(variants_) > 1:
            for cv in variants_:
                e_ = expected_line(cv)
                if e_ is not None:
                    exp = e_
        if exp is None:
            continue  # outside the documented domain (rejected by validation or reported by C16)
        if exp == "<skip>":
            chk.bad("R2", f"skip{key}", EXPAND, line, "ghost without default must be skipped", found=got)
            continue
        n_cmp += 1
        ok = squash(got) == squash(exp)
        if not ok and "‹POS›" in exp:
            alts = ["‹EmitPos›", "‹DeclPos›"] + (["‹Own›"] if c["member"] == "Unnamed" else [])
            ok = squash(got) in [squash(exp.replace("‹POS›", a)) for a in alts]
        if key in seen and seen[key] == ok:
            continue
        seen[key] = ok
        chk.expect("R1", f"line{key}", ok, EXPAND, line, "emitted line differs from the designated one (wrong designator side, rename/child prefix dropped, wrong substitutes)",
                   expected=exp, found=got)
    chk.unit("struct_iteration_leaves", len(T["leaves"]))
    chk.unit("cells_compared", n_cmp)


def r3_ghost_lines(chk):
    repo = chk.repo
    chk.rule("R3", "struct-level #[ghosts] entries: `name: default,` / `default,` (Into), `other.[child.]name = default;` (into_existing); pushed only for non-From conversions", floor=8)
    T = fn_table(repo, "render_ghost_line")
    for lf in T["leaves"]:
        k = lf.get("ctx.kind")
        mk = lf.get("ghost_data.ghost_ident.get_ident()") or lf.get("ghost_data.ghost_ident#Member.0")
        cp = lf.get("ghost_data.child_path")
        if mk is None and lf.get("ghost_data.ghost_ident") == "Destruction":
            continue  # C16 '16'
        key = f"render_ghost_line[{mk},{k},child={cp},{lf.get('ctx.impl_type')}]"
        if lf.kind == "panic":
            if direction(k) == "From":
                continue  # never called for From (R3 below) — C16 discharges '7'
            continue
        if lf.kind != "ok" or lf.toks is None:
            chk.inconc("R3", key + ": " + str(lf.unsupported))
            continue
        it = lf.get("ctx.impl_type")
        if it == "Enum":
            continue  # render_ghost_line is only reached from the struct renderer (struct or variant mode)
        tl = {"Struct": "«self .»", "Variant": "«»"}.get(it)
        got = squash(show_toks(lf.toks).replace(f"replace_tilde_or_at_in_expr(ghost_data.action, Some(«self»), Some({tl}))", "DEFAULT"))
        got = re.sub(r"ghost_data\.ghost_ident(\.get_ident\(\))?(#Member\.0)?(#(Named|Unnamed)\.0)?", "NAME", got)
        got = got.replace("ghost_data.child_path!.child_path", "CP")
        d = direction(k)
        if d == "Into":
            exp = "‹NAME›:‹DEFAULT›," if mk == "Named" else "‹DEFAULT›,"
        elif d == "Existing":
            exp = "other." + ("‹CP›." if cp == "Some" else "") + "‹NAME›=‹DEFAULT›;"
        else:
            continue
        chk.expect("R3", key, got == exp, EXPAND, T["fn_line"], "struct-level ghost line", expected=exp, found=got)
    # only pushed for non-From, matched to the nesting level
    fi = repo.fn(EXPAND, "struct_init_block_inner")
    sites = [n for n in walk(fi.body) if n["k"] == "Call" and n["func"]["k"] == "Path" and n["func"]["segs"][-1] == "render_ghost_line"]
    from ..panics import guard_conjuncts
    all_c = [guard_conjuncts(fi, s_) for s_ in sites]
    good = bool(sites) and all(any(c == "!ctx.kind.is_from()" for c in cs) and any(re.search(r"ghosts_attr\(&ctx\.struct_attr\.ty,&ctx\.kind\)", c) for c in cs) for cs in all_c)
    # recognised-bad: a ghost line produced under a From guard, or from the raw vector / another kind's instruction
    bad = bool(sites) and any(any(c == "ctx.kind.is_from()" for c in cs) or any(re.search(r"ghosts_attrs\b(?!\()", c) for c in cs) for cs in all_c)
    chk.shape("R3", "ghost-lines/guard", good, bad and not good, EXPAND, fi.line,
              what="struct-level ghost lines must be produced only for non-From conversions, from the ghosts instruction applicable to this conversion", found=[c[:70] for cs in all_c for c in cs][:8])


def r4_as_type(chk):
    repo = chk.repo
    chk.rule("R4", "as_type expands to `~ as <own type>` for From kinds only and `~ as <given type>` for Into/IntoExisting kinds only, same member and container", floor=2)
    from ..pe import Evaluator, ListV, StructV, SymObj, Toks
    from ..tables import IMPL_FILES, kind_slots
    fi = repo.fn(ATTR, "add_as_type_attrs")
    ev = Evaluator(repo, IMPL_FILES, shallow=True)
    lst = ListV([])
    attr = StructV("AsAttr", {"container_ty": SymObj("A.container_ty", ("opt", ("named", "TypePath"))), "member": SymObj("A.member", ("opt", ("named", "Member"))), "tokens": SymObj("A.tokens", ("toks",))})
    ev.inline(fi, None, [SymObj("input", ("named", "SynField")), attr, lst])
    slots, _ = kind_slots(repo)
    got = []
    for el in lst.elems:
        if not isinstance(el, StructV):
            continue
        core = el.fields.get("attr")
        at = el.fields.get("applicable_to")
        ks = sorted(k for k, s in slots.items() if isinstance(at, ListV) and s < len(at.elems) and at.elems[s] is True)
        act = core.fields.get("action") if isinstance(core, StructV) else None
        act_s = show_toks(act.args[0].toks) if hasattr(act, "args") and act.args and isinstance(act.args[0], Toks) else str(act)
        got.append({"kinds": ks, "action": squash(act_s), "member": str(getattr(core.fields.get("member"), "path", core.fields.get("member"))) if isinstance(core, StructV) else None,
                    "container": str(getattr(core.fields.get("container_ty"), "path", core.fields.get("container_ty"))) if isinstance(core, StructV) else None, "fallible": el.fields.get("fallible")})
    exp_from = {"kinds": ["FromOwned", "FromRef"], "action": squash("~ as ‹str(‹input.ty›)›"), "member": "A.member", "container": "A.container_ty", "fallible": False}
    exp_into = {"kinds": ["OwnedInto", "OwnedIntoExisting", "RefInto", "RefIntoExisting"], "action": squash("~ as ‹A.tokens›"), "member": "A.member", "container": "A.container_ty", "fallible": False}

    def close(a, b):
        return a["kinds"] == b["kinds"] and a["member"] == b["member"] and a["container"] == b["container"] and a["fallible"] == b["fallible"]
    f_ok = [g for g in got if close(g, exp_from) and g["action"].startswith("~as") and "input.ty" in g["action"]]
    i_ok = [g for g in got if close(g, exp_into) and g["action"] == exp_into["action"]]
    chk.expect("R4", "as_type/from", len(f_ok) == 1 and len(got) == 2, ATTR, fi.line, "as_type From half", expected=exp_from, found=got)
    chk.expect("R4", "as_type/into", len(i_ok) == 1 and len(got) == 2, ATTR, fi.line, "as_type Into half", expected=exp_into, found=got)


def r5_wrapper(chk):
    repo = chk.repo
    chk.rule("R5", "wrapper: From wraps by own shape; Into by hint, falling back to own shape; post-init / into_existing emit bare statements; fragments spliced in order", floor=20)
    T = fn_table(repo, "struct_init_block_inner")
    seen = set()
    for lf in T["leaves"]:
        k = lf.get("ctx.kind")
        hint = lf.get("type_hint") or lf.get("ctx.struct_attr.type_hint")
        for a, v in lf.d.items():
            if a.endswith("type_hint") and hint is None:
                hint = v
        named = lf.get("named_fields")
        pi = lf.get("ctx.has_post_init")
        if lf.kind != "ok" or lf.toks is None:
            continue
        key = f"wrapper[{direction(k)},{hint},named={named},post_init={pi}]"
        if key in seen:
            continue
        seen.add(key)
        t = lf.toks
        shape = "bare"
        if len(t) == 1 and t[0][0] == "group":
            shape = {"{": "brace", "(": "paren"}.get(t[0][1], "?")
        d = direction(k)
        if pi or d == "Existing":
            exp = "bare"
        elif d == "From":
            exp = "brace" if named else "paren"
        else:
            exp = {"Struct": "brace", "Tuple": "paren"}.get(hint) or ("brace" if named else "paren")
        chk.expect("R5", key, shape == exp, EXPAND, T["fn_line"], "wrong delimiter around the field lines", expected=exp, found=shape)
        inner = t[0][2] if shape != "bare" else t
        reps = [x for x in inner if x[0] == "rep"]
        chk.expect("R5", key + "/in-order", len(reps) >= 1 and all("fragments" in x[1] for x in reps), EXPAND, T["fn_line"], "fragments are not spliced as one in-order repetition", found=show_toks(inner)[:80])


def r6_variant_no_post_init(chk):
    repo = chk.repo
    chk.rule("R6", "post-init bodies only arise for struct fields (so variant-mode cells never combine with post-init)", floor=1)
    fi = repo.fn(EXPAND, "struct_post_init")
    pushes = []
    for n in walk(fi.body):
        if n["k"] == "Arm":
            from ..src import render_pat
            pushes.append((render_pat(n["pat"]), "fragments.push" in render(n["body"])))
    def produces(b):
        t = render(b)
        return "fragments.push" in t or "render_parent(" in t
    pushes = [(p_, produces(n_["body"])) for n_ in walk(fi.body) if n_["k"] == "Arm" for p_ in [render_pat(n_["pat"])]]
    # also filter_map / map closures matching on the member kind
    field_ok = any(p.startswith("DataTypeMember::Field") and b for p, b in pushes)
    variant_bad = any(p.startswith("DataTypeMember::Variant") and b for p, b in pushes)
    chk.shape("R6", "struct_post_init/fields-only", field_ok and not variant_bad, variant_bad, EXPAND, fi.line,
              what="a bare #[parent] on a variant would produce a post-init body in variant mode", found=pushes)


def emit_counter_rule(chk, rule):
    """The positional slot a struct line is rendered for (tuple destinations: `other.<n> = ..`) is the EMISSION position: the number of
    fragments pushed so far. Counter discipline in struct_init_block_inner: starts at 0, is only ever `+= 1`-ed, and exactly once next to
    every fragment pushed inside the member loop (skipped ghost / parent members push nothing and must not move it)."""
    from ..src import calls
    fi = chk.repo.fn(EXPAND, "struct_init_block_inner")
    chk.rule(rule, "emission counter: the position handed to render_struct_line counts the fragments pushed so far (init 0; `+= 1` exactly once per push in the member loop; no other write)", floor=4)
    pos = {render(c["args"][3]).replace(" ", "") for c in calls(fi.body, "render_struct_line") if len(c["args"]) >= 4}
    if not pos:
        raise Inconclusive("struct_init_block_inner: no render_struct_line call with a position argument")
    if len(pos) != 1:
        raise Inconclusive(f"struct_init_block_inner: several position expressions {sorted(pos)}")
    v = pos.pop()
    vecs = {render(n["recv"]).replace(" ", "") for n in walk(fi.body) if n.get("k") == "MethodCall" and n["method"] == "push"}
    if re.fullmatch(r"\w+\.len\(\)", v) and v[:-6] in vecs:
        chk.ok(rule, "emit-counter/len", EXPAND, fi.line)
        return
    if not re.fullmatch(r"\w+", v):
        raise Inconclusive(f"struct_init_block_inner: position argument `{v}` is neither a local counter nor <fragments>.len()")
    def pname(p_):
        p_ = p_.get("pat") if p_.get("k") == "PType" else p_
        return p_.get("name") if p_.get("k") == "PIdent" else None
    lets = [st for st in walk(fi.body) if st.get("k") == "Let" and pname(st["pat"]) == v]
    if len(lets) != 1 or lets[0].get("init") is None:
        raise Inconclusive(f"struct_init_block_inner: counter `{v}` is not a single initialised local")
    chk.expect(rule, "emit-counter/init", render(lets[0]["init"]).strip() == "0", EXPAND, lets[0]["line"], "emission counter does not start at 0", expected="0", found=render(lets[0]["init"])[:40])
    loops = [n for n in walk(fi.body) if n.get("k") in ("While", "ForLoop", "Loop") and any(True for _ in calls(n["body"], "render_struct_line"))]
    if len(loops) != 1:
        raise Inconclusive(f"struct_init_block_inner: {len(loops)} member loops found")
    loop = loops[0]

    def is_write(n):
        return (n.get("k") == "Binary" and n["op"].endswith("=") and n["op"] not in ("==", "!=", "<=", ">=") and render(n["l"]).strip() == v) or \
               (n.get("k") == "Assign" and render(n.get("l") or n.get("left") or {}).strip() == v)
    writes = [n for n in walk(fi.body) if is_write(n)]
    good_w = [n for n in writes if n.get("k") == "Binary" and n["op"] == "+=" and render(n["r"]).strip() == "1"]
    for n in writes:
        if n not in good_w:
            chk.bad(rule, "emit-counter/write", EXPAND, n["line"], "emission counter written other than by `+= 1` (a skipped member moves the slot of every later field)", expected=f"{v} += 1", found=render(n)[:60])
    # every statement list inside the loop: pushes to the fragment vector and increments pair up, push first
    frag = None
    rows = []
    for b in walk(loop["body"]):
        if b.get("k") != "Block":
            continue
        seq = []
        for st in b["stmts"]:
            e = st.get("expr") if st.get("k") in ("ExprStmt", "Expr", "Semi") else None
            if e is None:
                continue
            if e.get("k") == "MethodCall" and e["method"] == "push":
                seq.append(("push", render(e["recv"]).strip(), e["line"]))
            elif is_write(e):
                seq.append(("inc", v, e["line"]))
        if not seq:
            continue
        pushes = [x for x in seq if x[0] == "push"]
        incs = [x for x in seq if x[0] == "inc"]
        if pushes and frag is None:
            frag = pushes[0][1]
        ok = len(pushes) == len(incs) and all(seq[2 * i][0] == "push" and seq[2 * i + 1][0] == "inc" for i in range(len(pushes))) and all(p_[1] == frag for p_ in pushes)
        rows.append((ok, seq))
    n_pairs = len(rows)
    n_ok = sum(1 for ok, _ in rows if ok)
    for k_, (ok, seq) in enumerate(rows):
        key = f"emit-counter/block#{k_}"
        if ok:
            chk.ok(rule, key, EXPAND, seq[0][2])
        elif n_ok >= 2:
            # the per-branch `push; += 1` discipline is in use (other branches follow it) and this branch deviates
            chk.bad(rule, key, EXPAND, seq[0][2], "fragment pushes and counter increments do not pair up one to one in this branch of the member loop", expected="push; += 1", found=[x[0] for x in seq])
        else:
            chk.inconc(rule, f"counter discipline of the member loop is not in the per-branch `push; += 1` form ({[x[0] for x in seq]})")
    if n_pairs < 3:
        chk.inconc(rule, f"only {n_pairs} push/increment branches found in the member loop (3 confirmed by hand)")


def run(chk):
    chk.guard("R6", lambda: r6_variant_no_post_init(chk))
    chk.guard("R1", lambda: r1_r2(chk))
    chk.guard("R3", lambda: r3_ghost_lines(chk))
    chk.guard("R4", lambda: r4_as_type(chk))
    chk.guard("R5", lambda: r5_wrapper(chk))
    from .c05 import import_lookup_contracts
    chk.guard("R7", lambda: import_lookup_contracts(chk, "R7", ["ghost", "child", "field_attr_core", "has_parent_attr", "has_parameterless_parent_attr", "parameterized_parent_attr", "ghosts_attr", "child_parents_attr"]))
    from .c12 import import_parse_contracts
    chk.guard("R8", lambda: import_parse_contracts(chk, "R8"))

    def r9():
        # the counterpart member of an instruction may be a NAME or a TUPLE INDEX: every parser that looks ahead for an optional leading
        # member (`<member>, rest`) must use the member look-ahead, not an identifier-only peek
        from ..tables import ATTR
        from ..src import walk as _walk
        chk.rule("R9", "optional leading member of an instruction payload is recognised for names and for tuple indices (peek_member, not peek(Ident))", floor=2)
        n = 0
        for fi in chk.repo.fns(ATTR):
            k = 0
            for node in _walk(fi.body):
                if node["k"] == "Binary" and node["op"] == "&&" and re.search(r"\.peek2\(Token!\[,\]\)|\.peek2\(Token!\(,\)\)", render(node["r"]).replace(" ", "")):
                    lhs = render(node["l"]).replace(" ", "")
                    n += 1
                    key = f"{fi.qual}:optional-member#{k}"
                    k += 1
                    good = re.fullmatch(r"peek_member\(\w+\)", lhs) is not None
                    bad = re.fullmatch(r"\w+\.peek\((syn::)?Ident\)", lhs) is not None
                    chk.shape("R9", key, good, bad, ATTR, node["line"], what="an identifier-only look-ahead: `instr(<tuple index>, ..)` is no longer read as a rename to that member (the index is swallowed by the rest of the payload)",
                              expected="peek_member(input) && input.peek2(Token![,])", found=lhs)
        # the same look-ahead written as two separate tests (early return / nested if): decided per function that asks `peek2(,)`
        seen_fns = {i_.key.split(":optional-member#")[0] for i_ in chk.instances if i_.rule == "R9"}
        for fi in chk.repo.fns(ATTR):
            if fi.qual in seen_fns:
                continue
            txt = render(fi.body).replace(" ", "")
            if not re.search(r"\.peek2\(Token!\[,\]\)|\.peek2\(Token!\(,\)\)", txt):
                continue
            n += 1
            has_m = re.search(r"\bpeek_member\(\w+\)", txt) is not None
            has_i = re.search(r"\w+\.peek\((syn::)?Ident\)", txt) is not None
            chk.shape("R9", f"{fi.qual}:optional-member#split", has_m and not has_i, has_i and not has_m, ATTR, fi.line,
                      what="an identifier-only look-ahead: `instr(<tuple index>, ..)` is no longer read as a rename to that member", expected="peek_member(input) .. input.peek2(Token![,])", found="peek(Ident)" if has_i else "none")
        if n < 2:
            chk.inconc("R9", f"only {n} optional-member look-aheads found in attr.rs (2 confirmed by hand: AsAttr::parse, try_parse_optional_ident)")
    chk.guard("R9", r9)

    def r10():
        # the member a field stands for: its declaration position and its name (or, for tuple fields, the index equal to that position)
        from ..tables import AST, IMPL_FILES
        from ..pe import Evaluator, StructV, Tag, explore, vkey
        repo = chk.repo
        chk.rule("R10", "Field::from_syn: idx = declaration position; member = the field's ident, or Index(position) for tuple fields; member_str printed from that member", floor=2)
        fi = repo.fn(AST, "from_syn", impl="Field")
        ip = [p_ for p_ in fi.params if re.search(r"idx|index|pos|^i$", p_)]
        if len(ip) != 1:
            raise Inconclusive("Field::from_syn: position parameter not identifiable among " + str(fi.params))
        ip = ip[0]
        n = 0
        for lf in explore(lambda: Evaluator(repo, IMPL_FILES, shallow=True), lambda ev: ev.run_fn(fi, ev.sym_params(fi))):
            if lf.panic or lf.unsupported:
                chk.inconc("R10", f"Field::from_syn not evaluable: {lf.panic or lf.unsupported}")
                continue
            v = lf.value.args[0] if isinstance(lf.value, Tag) and lf.value.name == "Ok" and lf.value.args else lf.value
            if not isinstance(v, StructV):
                chk.inconc("R10", "Field::from_syn does not return a struct literal: " + vkey(lf.value)[:80])
                continue
            named = any(val == "Some" for a, val in lf.decisions.items() if ".ident" in a)
            f_ = {k_: vkey(x) for k_, x in v.fields.items()}
            key = f"Field::from_syn[{'named' if named else 'tuple'}]"
            if key in {i_.key for i_ in chk.instances if i_.rule == "R10"}:
                continue
            n += 1
            idx_ok = f_.get("idx") == ip
            if named:
                mem_ok = ".ident" in f_.get("member", "")
                mem_bad = "Unnamed(" in f_.get("member", "")
            else:
                mem_ok = re.fullmatch(r"Unnamed\(Index\{index: " + re.escape(ip) + r"(, span: [^}]*)?\}\)", f_.get("member", "")) is not None
                mem_bad = f_.get("member", "").startswith("Unnamed(Index{index:") and not mem_ok
            str_ok = ("member" not in f_) or ip in f_.get("member_str", "") or ".ident" in f_.get("member_str", "")
            chk.shape("R10", key, idx_ok and mem_ok and str_ok, (f_.get("idx") not in (None, ip)) or mem_bad, AST, fi.line,
                      what="a field's position / member does not denote the field itself (off-by-one index, wrong member for the name)", expected={"idx": ip}, found=f_)
        if n < 2:
            chk.inconc("R10", f"only {n} shapes of Field::from_syn evaluated")
    chk.guard("R10", r10)
    chk.guard("R12", lambda: emit_counter_rule(chk, "R12"))

    def r11():
        # shape flags of the deriving type / of a variant: named_fields <=> Fields::Named, unit <=> Fields::Unit (they select the
        # `{..}` / `(..)` / bare form of every emitted pattern and literal)
        from ..tables import AST
        from ..src import walk as _walk
        chk.rule("R11", "ast.rs shape flags: named_fields is true exactly for Fields::Named, unit exactly for Fields::Unit", floor=2)
        n = 0
        for fi in chk.repo.fns(AST):
            for node in _walk(fi.body):
                if node["k"] != "Struct" or (node.get("path") or "").split("::")[-1].strip() not in ("Struct", "Variant"):
                    continue
                for f_ in node["fields"]:
                    if f_["member"] not in ("named_fields", "unit"):
                        continue
                    t = render(f_["expr"]).replace(" ", "")
                    # follow one local definition
                    if re.fullmatch(r"\w+", t):
                        from ..src import local_defs
                        t = local_defs(fi).get(t, t)
                    want = "Named" if f_["member"] == "named_fields" else "Unit"
                    others = {"Named", "Unnamed", "Unit"} - {want}
                    pos = re.search(r"Fields::" + want + r"\b", t) is not None and not t.startswith("!")
                    neg = any(re.search(r"Fields::" + o + r"\b", t) for o in others) and not re.search(r"Fields::" + want + r"\b", t)
                    n += 1
                    chk.shape("R11", f"{fi.qual}:{f_['member']}", pos, (neg and not t.startswith("!")) or (t.startswith("!") and re.search(r"Fields::" + want + r"\b", t) is not None) or t in ("true", "false"), AST, node["line"],
                              what="shape flag computed from the wrong kind of field list", expected=f"matches!(.., Fields::{want}..)", found=t[:100])
        if n < 2:
            chk.inconc("R11", f"only {n} shape flags found in ast.rs struct literals (4 confirmed by hand)")
    chk.guard("R11", r11)
