#!/usr/bin/env python3
"""Regenerate o2ov/data/c15_guards.json (the CONFIRMED guard sets of C15.R9) from /repo's current validate.rs.
Maintenance helper: run only after reading the diff of the table by hand; never run by a check."""
import json, os, sys
HERE = os.path.dirname(os.path.dirname(os.path.abspath(__file__)))
sys.path.insert(0, HERE)
from o2ov.src import Repo
from o2ov.props import c15
ref = c15.all_guard_sets(Repo())
json.dump(ref, open(os.path.join(HERE, "o2ov", "data", "c15_guards.json"), "w"), indent=1, sort_keys=True)
print(sum(len(v) for v in ref.values()), "emission sites,", len(ref), "messages / callees")
