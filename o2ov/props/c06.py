"""C06 — impls for one counterpart type are independent of the other counterparts."""
import re

from ..src import Inconclusive, method_calls, render, walk, walk_with_parents
from ..tables import ATTR, EXPAND, IMPL_FILES

LEVEL = "other"
EXPLANATION = (
    "An instruction dedicated to counterpart A can reach an impl for B only if the generator reads an instruction vector without "
    "filtering by the conversion's type. R1 (who-may-touch): every syntactic read, in expand.rs, of a Vec-typed field of "
    "DataTypeAttrs/MemberAttrs (names read from the repo's struct items) must be inside nothing but a wholesale move; all filtering "
    "accessors live in attr.rs and are checked by C05.R3. R2: every accessor call in expand.rs passes the current conversion's "
    "`ctx.struct_attr.ty` / `ctx.kind` / `ctx.fallible`. R3: TypePath's PartialEq and Hash use the same key, so set/map lookups agree with ==.")
NOT_DECIDED = ["projection equality of token streams as such"]


def vector_fields(repo):
    out = {}
    for sname in ("DataTypeAttrs", "MemberAttrs"):
        st = repo.struct(ATTR, sname)
        for f in st["fields"]["fields"]:
            if f["ty"].replace(" ", "").startswith("Vec<") and f["name"] != "error_instrs":
                out.setdefault(f["name"], []).append(sname)
    return out


def is_attrs_container(base):
    """Does expression `base` denote a DataTypeAttrs/MemberAttrs value? (syntactic typing by the repo's naming)"""
    r = render(base).replace(" ", "")
    return bool(re.search(r"(\.attrs|get_attrs\(\)|^attrs|^member_attrs|^&?attrs)$", r))


def raw_vector_rule(chk, rule, member_only=False):
    repo = chk.repo
    vf = vector_fields(repo)
    chk.unit("vector_fields", len(vf))
    if len(vf) < 10:
        raise Inconclusive(f"only {len(vf)} instruction vectors found in DataTypeAttrs/MemberAttrs")
    n = 0
    for fi in repo.fns(EXPAND):
        ordinal = {}
        for node, parents in walk_with_parents(fi.body):
            if node["k"] != "Field" or node["member"] not in vf:
                continue
            if node["member"] == "attrs" and not is_attrs_container(node["base"]):
                continue  # `.attrs` of a Field/Struct/Variant = the container itself, not a vector
            owners = vf[node["member"]]
            if member_only and (owners == ["DataTypeAttrs"] or render(node["base"]).replace(" ", "") in ("input.attrs", "ctx.input.get_attrs()", "input.get_attrs()")):
                continue
            n += 1
            txt = render(node)
            o = ordinal.get(txt, 0)
            ordinal[txt] = o + 1
            key = f"{fi.qual}:raw {txt}" + (f"#{o}" if o else "")
            if len(parents) >= 2 and parents[-1]["k"] == "MethodCall" and parents[-1]["method"] == "clone" and parents[-2]["k"] == "Struct" \
                    and any(f["member"] == node["member"] and f["expr"] is parents[-1] for f in parents[-2]["fields"]):
                chk.ok(rule, key.replace(":raw", ":move"), EXPAND, node["line"], detail="moved wholesale into the synthetic variant struct")
                continue
            chk.bad(rule, key, EXPAND, node["line"], "instruction vector read in the expander without filtering by the conversion's counterpart type / kind",
                    expected="access through a filtering accessor of attr.rs", found=txt)
    chk.ok(rule, "expand.rs/raw-reads-enumerated", EXPAND, 1, detail={"reads": n})


def accessor_sigs(repo):
    out = {}
    for fi in repo.fns(ATTR):
        if fi.impl is None or fi.impl.get("trait"):
            continue
        st = fi.impl["self_ty"].replace(" ", "").split("<")[0]
        if st not in ("DataTypeAttrs", "MemberAttrs"):
            continue
        ps = [p for p in fi.params if p != "self"]
        if "container_ty" in ps or "kind" in ps:
            out[fi.name] = ps
    return out


def r2(chk):
    repo = chk.repo
    chk.rule("R2", "every accessor call in expand.rs passes the current conversion's counterpart type, kind and fallibility", floor=20)
    sigs = accessor_sigs(repo)
    chk.unit("accessors", len(sigs))
    want = {"container_ty": r"&(new_)?ctx\.struct_attr\.ty", "kind": r"&(new_)?ctx\.kind", "fallible": r"(new_)?ctx\.fallible"}
    for fi in repo.fns(EXPAND):
        ordinal = {}
        for m in method_calls(fi.body):
            ps = sigs.get(m["method"])
            if ps is None or len(m["args"]) != len(ps):
                continue
            # data_type_impl enumerates (kind, fallible) constants by construction (C04.R4)
            if fi.name == "data_type_impl":
                continue
            o = ordinal.get(m["method"], 0)
            ordinal[m["method"]] = o + 1
            for pname, arg in zip(ps, m["args"]):
                if pname not in want:
                    continue
                txt = render(arg).replace(" ", "")
                if not re.fullmatch(want[pname], txt):
                    from ..src import local_defs, subst_locals
                    t2 = subst_locals(txt, local_defs(fi))
                    if t2 != txt:
                        txt = t2 if t2.startswith("&") or pname == "fallible" else t2
                        if pname in ("container_ty", "kind") and not txt.startswith("&") and re.fullmatch(want[pname], "&" + txt):
                            txt = "&" + txt  # `let ty = &ctx.struct_attr.ty; .. f(ty)`
                key = f"{fi.qual}:{m['method']}#{o}({pname})"
                recognised_bad = bool(re.fullmatch(r"&?(Kind::\w+|true|false|ctx\.struct_attr\.\w+(\.\w+)*|ctx\.\w+)", txt)) and not re.fullmatch(want[pname], txt)
                chk.shape("R2", key, bool(re.fullmatch(want[pname], txt)), recognised_bad, EXPAND, m["line"], "accessor called with something other than the current conversion's " + pname,
                          expected=want[pname], found=txt)


def r3(chk):
    repo = chk.repo
    chk.rule("R3", "PartialEq and Hash of TypePath (and ChildParentData) use the same key field", floor=2)
    for ty in ("TypePath", "ChildParentData"):
        eq_key = hash_key = None
        line = 1
        for it, _c in repo.impls(ATTR):
            if it["self_ty"].replace(" ", "") != ty:
                continue
            tr = (it.get("trait") or "").replace(" ", "")
            for sub in it["items"]:
                if sub["k"] != "Fn":
                    continue
                if tr == "PartialEq" and sub["name"] == "eq":
                    line = sub["line"]
                    bins = [n for n in walk(sub["body"]) if n["k"] == "Binary" and n["op"] == "=="]
                    if len(bins) == 1:
                        l, r_ = render(bins[0]["l"]), render(bins[0]["r"])
                        if l.startswith("self.") and r_.startswith("other.") and l[5:] == r_[6:]:
                            eq_key = l[5:]
                if tr == "Hash" and sub["name"] == "hash":
                    hs = [m for m in method_calls(sub["body"], "hash")]
                    if len(hs) == 1 and render(hs[0]["recv"]).startswith("self."):
                        hash_key = render(hs[0]["recv"])[5:]
        chk.expect("R3", f"{ty}: Eq/Hash key", eq_key is not None and eq_key == hash_key, ATTR, line, "== and hash disagree (set lookups would not match equality)",
                   expected="same field", found={"eq": eq_key, "hash": hash_key})
    # the key must be the full written path (incl. generic arguments), otherwise `A<i32>` and `A<u8>` collide
    fi = repo.fn(ATTR, "from", impl="From<syn::Path>forTypePath")
    ps = [f for n in walk(fi.body) if n["k"] == "Struct" and n["path"] == "TypePath" for f in n["fields"] if f["member"] == "path_str"]
    ok = len(ps) == 1 and render(ps[0]["expr"]).replace(" ", "") == "value.to_token_stream().to_string()"
    chk.expect("R3", "TypePath::from(Path).path_str", ok, ATTR, fi.line, "identity key of a counterpart type is not its complete written path", found=render(ps[0]["expr"]) if ps else None)


def run(chk):
    chk.rule("R1", "no raw instruction vector is read in expand.rs outside a wholesale move (all filtering happens in attr.rs accessors, see C05.R3)", floor=2)
    chk.guard("R1", lambda: raw_vector_rule(chk, "R1"))
    chk.guard("R2", lambda: r2(chk))
    chk.guard("R3", lambda: r3(chk))
    from .c05 import ACCESSORS, PREDICATES, import_lookup_contracts
    chk.guard("R4", lambda: import_lookup_contracts(chk, "R4", [a for _i, a in ACCESSORS + PREDICATES], with_chain=False,
                                                    desc="every lookup that takes a counterpart type prefers the instruction dedicated to THAT type and otherwise only accepts a default one (never one dedicated to another counterpart)"))

    def r5():
        # an instruction dedicated to counterpart B on a member must not change what counterpart A receives through #[repeat]: the
        # repeated categories are copied unconditionally (C14.R2 member-repeat instances)
        from ..core import Check
        from . import c14
        sub = Check("C14", chk.repo, chk.tier)
        sub.guard("R2", lambda: c14.r2(sub) if hasattr(c14, "r2") else c14.run(sub))
        chk.rule("R5", "member-level repeat copies each category regardless of what the receiving member carries itself", floor=4)
        for r_, why in sub.inconclusive:
            if r_ == "R2":
                chk.inconc("R5", why)
        for i in sub.instances:
            if i.rule == "R2" and i.key.startswith("member-repeat["):
                if i.ok:
                    chk.ok("R5", "repeat:" + i.key, i.file, i.line)
                else:
                    chk.bad("R5", "repeat:" + i.key, i.file, i.line, i.what, i.expected, i.found)
    chk.guard("R5", r5)
