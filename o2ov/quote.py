"""F2: quote!-family template extraction.

A template is parsed from the macro's token tree (never from text): `#x` -> hole,
`#( ... ) sep *` -> repetition, everything else literal; groups are kept nested.
"""
from .src import walk

QUOTE_MACROS = ("quote", "parse_quote", "quote_spanned")


def parse_template(tokens):
    out = []
    i = 0
    n = len(tokens)
    while i < n:
        t = tokens[i]
        if t["t"] == "punct" and t["v"] == "#" and i + 1 < n:
            nx = tokens[i + 1]
            if nx["t"] == "ident":
                out.append({"t": "hole", "name": nx["v"], "line": t["line"]})
                i += 2
                continue
            if nx["t"] == "group" and nx["d"] == "(":
                # repetition: #( ... ) [sep] *
                j = i + 2
                sep = None
                if j < n and tokens[j]["t"] == "punct" and tokens[j]["v"] == "*":
                    j += 1
                elif j + 1 < n and tokens[j]["t"] == "punct" and tokens[j + 1]["t"] == "punct" and tokens[j + 1]["v"] == "*":
                    sep = tokens[j]["v"]
                    j += 2
                else:
                    # not a repetition; treat '#' literally
                    out.append({"t": "punct", "v": "#", "joint": t.get("joint", False), "line": t["line"]})
                    i += 1
                    continue
                out.append({"t": "rep", "inner": parse_template(nx["ts"]), "sep": sep, "line": t["line"]})
                i = j
                continue
        if t["t"] == "group":
            out.append({"t": "group", "d": t["d"], "ts": parse_template(t["ts"]), "line": t["line"]})
        else:
            d = {"t": t["t"], "v": t["v"], "line": t["line"]}
            if t["t"] == "punct":
                d["joint"] = t.get("joint", False)
            out.append(d)
        i += 1
    return out


CLOSE = {"(": ")", "{": "}", "[": "]", "": ""}


def show(tpl):
    """Canonical text of a template (holes as #x)."""
    parts = []
    for t in tpl:
        if t["t"] == "hole":
            parts.append("#" + t["name"])
        elif t["t"] == "rep":
            parts.append("#(" + show(t["inner"]) + ")" + (t["sep"] or "") + "*")
        elif t["t"] == "group":
            parts.append(t["d"] + show(t["ts"]) + CLOSE[t["d"]])
        elif t["t"] == "punct":
            parts.append(t["v"] + ("\x00" if t.get("joint") else ""))
        else:
            parts.append(t["v"])
    s = " ".join(parts)
    return s.replace("\x00 ", "")


def holes(tpl, deep=True):
    for t in tpl:
        if t["t"] == "hole":
            yield t["name"]
        elif t["t"] == "rep":
            yield from holes(t["inner"], deep)
        elif t["t"] == "group" and deep:
            yield from holes(t["ts"], deep)


def literal_idents(tpl):
    """All literal identifier tokens (and lifetimes as 'x) of a template, with position info."""
    prev = None
    for t in tpl:
        if t["t"] == "ident":
            if prev is not None and prev["t"] == "punct" and prev["v"] == "'":
                yield ("lifetime", t["v"], t["line"])
            else:
                yield ("ident", t["v"], t["line"])
        elif t["t"] == "rep":
            yield from literal_idents(t["inner"])
        elif t["t"] == "group":
            yield from literal_idents(t["ts"])
        prev = t


def flat_literals(tpl):
    """Flattened sequence of template elements, descending into groups (open/close markers)."""
    for t in tpl:
        if t["t"] == "group":
            yield {"t": "open", "v": t["d"], "line": t["line"]}
            yield from flat_literals(t["ts"])
            yield {"t": "close", "v": CLOSE[t["d"]], "line": t["line"]}
        elif t["t"] == "rep":
            yield {"t": "repopen", "v": "#(", "line": t["line"]}
            yield from flat_literals(t["inner"])
            yield {"t": "repclose", "v": ")*", "sep": t["sep"], "line": t["line"]}
        else:
            yield t


def templates_in(node):
    """Yield (macro_node, template) for every quote-family macro below node (incl. nested in macro args)."""
    for m in walk(node):
        if m["k"] == "Macro" and m["last"] in QUOTE_MACROS:
            yield m, parse_template(m["tokens"])


def category(tpl):
    """Fragment category of a template by its top-level token sequence (DESIGN A.2)."""
    if not tpl:
        return "Empty"
    top = tpl
    last = top[-1]
    first = top[0]

    def is_p(t, v):
        return t["t"] == "punct" and t["v"] == v

    # top-level '=>' => MatchArm
    for a, b in zip(top, top[1:]):
        if is_p(a, "=") and a.get("joint") and is_p(b, ">"):
            return "MatchArm"
    if len(top) >= 2 and is_p(top[0], ".") and is_p(top[1], "."):
        return "Update"
    if is_p(last, ","):
        if len(top) >= 2 and top[0]["t"] in ("hole", "ident") and is_p(top[1], ":") and not top[1].get("joint"):
            return "FieldInit"
        return "PosExpr"
    if is_p(last, ";"):
        if first["t"] == "ident" and first["v"] == "other" and len(top) > 1 and is_p(top[1], "."):
            return "ExistingAssign"
        if first["t"] == "ident" and first["v"] == "obj" and len(top) > 1 and is_p(top[1], "."):
            return "ObjAssign"
        if is_p(first, "*") and len(top) > 1 and top[1]["t"] == "ident" and top[1]["v"] == "other":
            return "ExistingOverwrite"
        return "Stmt"
    if len(top) == 1 and top[0]["t"] == "group" and len(top[0]["ts"]) == 1 and top[0]["ts"][0]["t"] == "rep":
        return {"{": "BraceWrap", "(": "ParenWrap", "[": "BracketWrap", "": "BareWrap"}[top[0]["d"]]
    if len(top) == 1 and top[0]["t"] == "rep":
        return "BareWrap"
    return "Expr"
