#!/usr/bin/env python3
"""Regenerate MANIFEST.json from the property modules present (maintenance helper)."""
import importlib, json, os, sys
HERE = os.path.dirname(os.path.dirname(os.path.abspath(__file__)))
sys.path.insert(0, HERE)
ALL = [f"C{n:02d}" for n in range(1, 21)]
checks, na = [], []
for pid in ALL:
    try:
        mod = importlib.import_module(f"o2ov.props.{pid.lower()}")
    except ModuleNotFoundError:
        na.append({"property_id": pid, "reason": "check not built yet in this round (see DESIGN.md §3 for the planned static rules)"})
        continue
    if getattr(mod, "NOT_APPLICABLE", None):
        na.append({"property_id": pid, "reason": mod.NOT_APPLICABLE})
        continue
    checks.append({
        "property_id": pid,
        "quick_cmd": f"./check {pid} --tier quick",
        "thorough_cmd": f"./check {pid} --tier thorough",
        "evidence_file": f"evidence/{pid}.json",
        "replay_cmd_template": f"./check {pid} --explain {{path}}",
        "engine": "sa",
        "level_claimed": {"category": getattr(mod, "LEVEL", "other"), "text": mod.EXPLANATION, "design_ref": f"DESIGN.md §3 {pid}"},
        "level_note": "Decides only the structural clauses named in the text; NOT decided: " + "; ".join(getattr(mod, "NOT_DECIDED", [])) +
                      ". Trusted base: syn 2 parser front-end, the rule engine, Rust/quote semantics of the interpreted constructs.",
        "technique": getattr(mod, "TECHNIQUE", "static analysis: decision-table extraction by partial evaluation of the generator's syntax tree over finite discriminants, compared with documentation-derived tables"),
    })
man = {
    "version": 1,
    "setup_cmd": "cd sa && CARGO_NET_OFFLINE=true cargo build --release --offline && cd ../mir && CARGO_NET_OFFLINE=true cargo +nightly build --release --offline",
    "hooks": {"guard": "o2o_verif", "enable": "none - static analysis reads /repo's source; nothing is compiled into o2o and no hook exists",
              "baseline_off_cmd": "cd /repo && cargo test --workspace --no-fail-fast --offline", "source_commits": [], "add_only": True},
    "engines": [
        {"name": "sa", "path": "sa/ + o2ov/", "serves_properties": [c["property_id"] for c in checks],
         "kind_free_text": "syn-2 front-end (astdump) dumping the syntax tree of /repo's current sources + Python rule engine (partial evaluator over finite discriminants, quote-template extraction, who-may-touch and shape rules)"},
        {"name": "mir", "path": "mir/ + o2ov/mirfacts.py", "serves_properties": ["C16", "C19"],
         "kind_free_text": "nightly rustc_private driver injected with RUSTC_WORKSPACE_WRAPPER under `cargo +nightly check` (both feature configurations): dumps type-resolved call and Assert terminators of o2o-impl's MIR; used by the thorough tier as a completeness cross-check of the syntactic site enumerations (nothing is executed)"},
    ],
    "checks": checks,
    "not_applicable": na,
    "notes": "All checks are static: they parse /repo's working tree on every run and never run the derive. exit 2 + INCONCLUSIVE = anchor could not be analysed (fail-closed).",
}
with open(os.path.join(HERE, "MANIFEST.json"), "w") as fh:
    json.dump(man, fh, indent=1)
print(len(checks), "checks;", len(na), "not applicable")
