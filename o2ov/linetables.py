"""Decision tables of the line renderers under their callers' guards (shared by C01, C02, C03, C07, C09, C16, C17).

Each table is the complete set of leaves of one *region* of expand.rs (one loop iteration, or a function with its loops
skipped), partially evaluated with the helper fns inlined (strict mode: no silent summaries) and only the instruction
lookups of attr.rs summarised.  Results are cached on disk keyed by the SHA-256 of every analysed source file and of the
analyser itself, so a changed working tree is always re-analysed.
"""
import hashlib
import os
import pickle

from .panics import constraint
from .pe import (BreakEx, ContinueEx, Evaluator, ListV, NeedDecision, SymObj, Tag, Toks, explore, show_toks, vkey)
from .src import Inconclusive, VERIF, render, walk
from .tables import EXPAND, IMPL_FILES

# lookups of attr.rs that stay symbolic (their own correctness is C05/C06's business)
OPAQUE = {"struct_init_block_inner", "struct_init_block", "enum_init_block", "replace_tilde_or_at_in_expr", "get_for_kind", "child", "ghost", "ghosts_attr", "has_parent_attr",
          "has_parameterless_parent_attr", "parameterized_parent_attr", "field_attr_core", "field_attr", "child_parents_attr", "get_child_path_str", "check_match", "named_fields",
          "lit", "pat", "type_hint", "where_attr", "variant_destruct_block", "get_attrs", "get_members", "get_generics", "get_ident_data",
          "main_code_block", "main_code_block_ok", "get_quote_trait_params", "struct_pre_init", "struct_post_init", "quote_trait", "data_type_impl"}
# attr.rs helpers that ARE inlined into expand.rs regions (the lookup chain and pure accessors)
TRANSPARENT = {"applicable_attr", "is_from", "is_ref", "is_into_existing", "maybe", "get_ident"}


class SLeaf:
    """Picklable leaf."""
    __slots__ = ("d", "kind", "toks", "panic", "unsupported", "effects", "value", "frags", "visited")

    def __init__(self, lf, value_toks=None, frags=None):
        self.d = dict(lf.decisions)
        self.panic = lf.panic
        self.unsupported = lf.unsupported
        self.effects = [tuple(str(x) if not isinstance(x, (list, tuple)) else tuple(map(str, x)) for x in e) for e in lf.effects]
        self.visited = set(lf.visited)
        self.kind = "panic" if lf.panic else ("unsupported" if lf.unsupported else "ok")
        self.toks = value_toks
        self.frags = frags
        self.value = vkey(lf.value) if (not lf.panic and not lf.unsupported) else None

    def get(self, a, default=None):
        return self.d.get(a, default)


def _digest(repo):
    h = hashlib.sha256()
    for f in IMPL_FILES:
        h.update(repo.text(f).encode())
    here = os.path.dirname(os.path.abspath(__file__))
    for fn in sorted(os.listdir(here)):
        if fn.endswith(".py"):
            with open(os.path.join(here, fn), "rb") as fh:
                h.update(fh.read())
    return h.hexdigest()[:24]


def _cached(repo, name, compute):
    if os.environ.get("O2OV_NO_CACHE"):
        return compute()
    d = os.path.join(VERIF, ".cache", "tables")
    os.makedirs(d, exist_ok=True)
    p = os.path.join(d, f"{name}-{_digest(repo)}.pkl")
    if os.path.exists(p):
        try:
            with open(p, "rb") as fh:
                return pickle.load(fh)
        except Exception:
            pass
    v = compute()
    tmp = p + f".{os.getpid()}.tmp"
    with open(tmp, "wb") as fh:
        pickle.dump(v, fh)
    os.replace(tmp, p)
    # keep the cache small
    for old in os.listdir(d):
        if old.startswith(name + "-") and old != os.path.basename(p) and old.endswith(".pkl"):
            try:
                os.remove(os.path.join(d, old))
            except OSError:
                pass
    return v


def _mk(repo, extra_opaque=(), preset_types=None):
    def mk():
        e = Evaluator(repo, IMPL_FILES, opaque=(OPAQUE | set(extra_opaque)), transparent=TRANSPARENT)
        e.skip_loops = True
        e.strict = True
        e.inline_files = {EXPAND}
        return e
    return mk


def _frags(v):
    if isinstance(v, ListV):
        out = []
        for el in v.elems:
            out.append(list(el.toks) if isinstance(el, Toks) else [("other", vkey(el))])
        return out
    return None


def struct_iter_table(repo):
    """One iteration of struct_init_block_inner's member loop: leaves -> fragments pushed / continue / break / panic."""
    def compute():
        fi = repo.fn(EXPAND, "struct_init_block_inner")
        loops = [n for n in walk(fi.body) if n["k"] == "While"]
        if len(loops) != 1 or loops[0]["cond"]["k"] != "LetExpr":
            raise Inconclusive("struct_init_block_inner: expected one `while let` member loop")
        loop = loops[0]

        def run(ev):
            env = ev.sym_params(fi)
            env["fragments"] = ListV([])
            env["idx"] = SymObj("idx", ("int",))
            env["type_hint"] = SymObj("type_hint", ("named", "TypeHint"))
            # other locals computed before the loop (hoisted sub-expressions such as `let is_from = ctx.kind.is_from();`) keep their
            # definition, so that hoisting a sub-expression out of the loop does not change the table
            for st in fi.body["stmts"]:
                if st is loop or st.get("expr") is loop or st["line"] >= loop["line"]:
                    break
                if st["k"] == "Let" and st.get("init") is not None and st["init"]["k"] != "Closure":
                    p = st["pat"]
                    while p["k"] in ("PType", "PRef"):
                        p = p["pat"]
                    if p["k"] != "PIdent" or p["name"] in env:
                        continue
                    try:
                        env[p["name"]] = ev.eval(st["init"], env)
                    except NeedDecision:
                        raise
                    except Exception:
                        env[p["name"]] = SymObj(p["name"], ("named", "?"))
            src = ev.eval(loop["cond"]["expr"], env)
            if not ev.bind(loop["cond"]["pat"], src, env):
                return "exit"
            try:
                ev.eval_block(loop["body"], env)
            except ContinueEx:
                return ("continue", env["fragments"])
            except BreakEx:
                return ("break", env["fragments"])
            return ("next", env["fragments"])

        def cons(d):
            if d.get("ctx.impl_type") == "Enum":
                return False
            return constraint(d)
        leaves = explore(_mk(repo), run, constraint=cons, limit=120000)
        out = []
        for lf in leaves:
            fr = None
            flow = None
            if isinstance(lf.value, tuple):
                flow, fl = lf.value
                fr = _frags(fl)
            elif lf.value == "exit":
                flow = "exit"
            s = SLeaf(lf, frags=fr)
            s.value = flow
            out.append(s)
        return {"leaves": out, "line": loop["line"], "fn_line": fi.line}
    return _cached(repo, "struct_iter", compute)


def fn_table(repo, fn_name, impl=None, extra_opaque=(), cache_name=None, cons=None):
    """Leaves of fn `fn_name` with loops skipped (their effect havocked) and helpers inlined."""
    def compute():
        fi = repo.fn(EXPAND, fn_name, impl=impl)

        def run(ev):
            return ev.run_fn(fi, ev.sym_params(fi))
        leaves = explore(_mk(repo, extra_opaque), run, constraint=cons or constraint, limit=120000)
        out = []
        for lf in leaves:
            toks = list(lf.value.toks) if isinstance(lf.value, Toks) else None
            out.append(SLeaf(lf, value_toks=toks))
        return {"leaves": out, "fn_line": fi.line}
    return _cached(repo, cache_name or ("fn_" + fn_name), compute)
