"""C07 — owned, by-reference, fallible and into-existing flavours of a mapping agree."""
import re

from ..linetables import fn_table, struct_iter_table
from ..pe import show_toks
from ..skeleton import impl_table
from ..src import Inconclusive, render, walk
from ..tables import EXPAND, direction, is_ref_kind, kinds
from .c01 import F, cell_key, cell_of, norm, squash

LEVEL = "other"
EXPLANATION = (
    "Two flavours of one mapping can only disagree where the generator treats them differently. R1: in the struct line table (one loop iteration, ~12k "
    "leaves) all leaves that share a cell modulo owned/ref and fallibility emit the same line, except the bare-parent conversion whose 4-cell table "
    "(`value`/`&value`, `into`/`try_into()?`) is checked explicitly; same for render_parent (`&` iff by-ref, `try_..?` iff fallible, `other` vs `&mut obj`). "
    "R3: the 12 x post-init skeletons: owned and ref skeletons are identical; fallible differs from infallible exactly by Try-prefix, `type Error`, the "
    "Result return type, and the Ok(..) tail. R4: main_code_block_ok = main_code_block wrapped in Ok(..) iff there is no post-init. R5: Into and "
    "into_existing agree: same source expression per cell, destination equal modulo `other.` + child prefix, and tuple destinations are addressed by the "
    "position `into` uses (emission position). R6: into_existing only ever assigns `other.<path> = ..;` (`*other = ..` only for `return`), so fields the "
    "mapping does not mention are untouched.")
EXPLANATION += ' R10 imports the emission-counter discipline (C01.R12): into (positional literal) and into_existing (`other.<n>`) agree on slots only if the counter counts pushed fragments.'
NOT_DECIDED = ["equality of runtime results", "`?` propagation inside user expressions (user tokens are opaque)", "Clone/borrow behaviour of the by-ref flavour (type checking is rustc's)"]


def r1_lines(chk):
    repo = chk.repo
    chk.rule("R1", "owned/ref and fallible/infallible leaves of one cell emit the same line (parent conversion and render_parent tables excepted and checked)", floor=200)
    T = struct_iter_table(repo)
    groups = {}
    for lf in T["leaves"]:
        if lf.get("members.peek()!.field_data") != "Field" or lf.kind != "ok":
            continue
        c = cell_of(lf)
        if c["kind"] is None or c["member"] is None:
            continue
        if lf.frags and any("struct_init_block_inner(" in show_toks(fr) for fr in lf.frags):
            continue  # nested level: rendered by the recursive call (same table, deeper field_ctx)
        key = cell_key(c)
        out = lf.value if not lf.frags else norm(" | ".join(show_toks(f) for f in lf.frags))
        groups.setdefault(key, {}).setdefault(squash(str(out)), []).append((c["kind"], c["fallible"]))
    for key, outs in groups.items():
        if ",parent" in key and ",From," in key:
            # explicit table
            ok = True
            for out, ks in outs.items():
                for k, f in ks:
                    recv = "value" if is_ref_kind(k) else "(&value)"
                    call = ".try_into()?" if f else ".into()"
                    if not out.endswith(squash(recv + call + ",")):
                        ok = False
            chk.expect("R1", f"parent-from{key}", ok, EXPAND, T["line"], "bare #[parent] From conversion: receiver/&/try table", found={o: sorted(set(map(str, v)))[:4] for o, v in outs.items()})
            continue
        chk.expect("R1", f"flavours{key}", len(outs) == 1, EXPAND, T["line"], "owned/ref or fallible/infallible flavours of this cell emit different lines",
                   found={o[:120]: sorted(set(map(str, v)))[:4] for o, v in outs.items()})
    chk.unit("line_cells", len(groups))
    # render_parent
    P = fn_table(repo, "render_parent")
    for lf in P["leaves"]:
        k, f = lf.get("ctx.kind"), lf.get("ctx.fallible")
        if direction(k) == "From":
            continue
        if lf.kind != "ok" or lf.toks is None:
            chk.bad("R1", f"render_parent[{k},{f}]", EXPAND, P["fn_line"], "cell not evaluable", found=str(lf.panic or lf.unsupported))
            continue
        got = squash(show_toks(lf.toks))
        recv = "(&(self.‹f.member›))" if is_ref_kind(k) else "self.‹f.member›"
        tgt = "other" if direction(k) == "Existing" else "&mutobj"
        exp = f"{recv}.{'try_' if f else ''}into_existing({tgt}){'?' if f else ''};"
        chk.expect("R1", f"render_parent[{k},{f}]", got == exp, EXPAND, P["fn_line"], "bare #[parent] pour: & iff by-ref, try..? iff fallible, other vs &mut obj", expected=exp, found=got)


def strip_fallible(src):
    s = src
    s = s.replace("TryFrom", "From").replace("TryInto", "Into").replace("try_from", "from").replace("try_into_existing", "into_existing").replace("try_into", "into")
    s = re.sub(r"type Error = __Err( <__ERRG>)? ;\s*", "", s)
    s = re.sub(r"-> :: core :: result :: Result < \( \) , __Err( <__ERRG>)? >", "", s)
    s = re.sub(r":: core :: result :: Result < (.*?) , __Err( <__ERRG>)? >", r"\1", s)
    s = s.replace("Ok ( obj )", "obj")
    s = re.sub(r"Ok \( \( \) \)\s*", "", s)
    s = s.replace("__init_ok", "__init")
    return re.sub(r"\s+", " ", s).strip()


def r3_skeletons(chk):
    repo = chk.repo
    chk.rule("R3", "skeleton siblings: owned == ref; fallible == infallible modulo Try-prefix, type Error, Result return, Ok(..) tail", floor=15)
    cells, info = impl_table(repo)
    fi = info["quote_trait"]
    by = {}
    for c in cells:
        if c.get("toks") is None:
            continue
        by[(c["kind"], c["fallible"], c["post_init"])] = re.sub(r"\s+", " ", c["src"]).strip()
    for (k, f, pi), src in sorted(by.items(), key=str):
        d = direction(k)
        if not is_ref_kind(k):
            other = [kk for kk in kinds(repo) if direction(kk) == d and is_ref_kind(kk)]
            if other and (other[0], f, pi) in by:
                chk.expect("R3", f"owned-vs-ref[{d},fallible={f},post_init={pi}]", by[(other[0], f, pi)] == src, EXPAND, fi.line, "owned and by-ref skeletons differ beyond the `&` hole",
                           found=[src[:160], by[(other[0], f, pi)][:160]])
        if f and (k, False, pi) in by:
            a, b = strip_fallible(src), strip_fallible(by[(k, False, pi)])
            chk.expect("R3", f"fallible-vs-infallible[{k},post_init={pi}]", a == b, EXPAND, fi.line,
                       "fallible skeleton differs from its infallible twin by more than Try-prefix / type Error / Result / Ok(..)", expected=b[:300], found=a[:300])
            # and it really has the Result / Ok parts
            has = "type Error = __Err" in src and ":: core :: result :: Result <" in src and ("Ok (" in src or "__init_ok" in src)
            chk.expect("R3", f"fallible-parts[{k},post_init={pi}]", has, EXPAND, fi.line, "fallible skeleton lacks type Error / Result / Ok", found=src[:200])


def r4_ok_wrap(chk):
    repo = chk.repo
    chk.rule("R4", "main_code_block_ok = Ok(main_code_block) iff no post-init; identical otherwise", floor=4)
    from ..pe import Evaluator, explore, vkey
    from ..tables import IMPL_FILES

    def mk():
        return Evaluator(repo, IMPL_FILES, opaque={"quote_action", "struct_main_code_block", "enum_main_code_block"})
    t = {}
    from ..skeleton import body_builders
    for name, fi, preset_ in body_builders(repo):
        for lf in explore(mk, lambda ev: ev.run_fn(fi, {**ev.sym_params(fi), **preset_})):
            if lf.get("ctx.struct_attr.quick_return") == "None":
                t[(name, lf.get("ctx.input"), lf.get("ctx.has_post_init"))] = vkey(lf.value)
    for inp in ("Struct", "Enum"):
        base = t.get(("main_code_block", inp, None))
        for pi in (False, True):
            got = t.get(("main_code_block_ok", inp, pi))
            exp = base if pi else ("«Ok (‹" + str(base) + "›)»")
            chk.expect("R4", f"ok-wrap[{inp},post_init={pi}]", base is not None and got == exp, EXPAND, body_builders(repo)[1][1].line,
                       "fallible body is not Ok(<infallible body>) (or is wrapped although the post-init skeleton adds Ok(obj))", expected=exp, found=got)


def dest_and_src(line):
    """Split a normalised line into (destination part, source part)."""
    s = squash(line)
    if "=" in s and s.endswith(";"):
        a, b = s[:-1].split("=", 1)
        return a, b
    if s.endswith(","):
        s = s[:-1]
        m = re.match(r"^(‹[^›]*›):(.*)$", s)
        if m:
            return m.group(1), m.group(2)
        return "", s
    return None, s


def r5_into_vs_existing(chk):
    repo = chk.repo
    chk.rule("R5", "Into and into_existing agree per cell: same source expression; destination equal modulo `other.` + child prefix; tuple positions are emission positions", floor=60)
    T = struct_iter_table(repo)
    by = {}
    for lf in T["leaves"]:
        if lf.get("members.peek()!.field_data") != "Field" or lf.kind != "ok" or not lf.frags or len(lf.frags) != 1:
            continue
        c = cell_of(lf)
        if c["dir"] not in ("Into", "Existing", "From") or c["impl"] == "Variant" or c["post_init"]:
            continue
        if any("struct_init_block_inner(" in show_toks(fr) for fr in lf.frags):
            continue
        c2 = dict(c)
        key = cell_key({**c2, "dir": "*", "kind": None})
        by.setdefault(key, {}).setdefault(c["dir"], set()).add(norm(show_toks(lf.frags[0])))
    n = 0
    for key, ds in sorted(by.items()):
        if "Into" in ds and "Existing" in ds and len(ds["Into"]) == 1 and len(ds["Existing"]) == 1:
            li, le = list(ds["Into"])[0], list(ds["Existing"])[0]
            if not squash(li) and not squash(le):
                continue
            di, si = dest_and_src(li)
            de, se = dest_and_src(le)
            n += 1
            chk.expect("R5", f"source{key}", si == se, EXPAND, T["line"], "into and into_existing take the value from different expressions", expected=si, found=se)
            if di is not None and de is not None:
                de2 = re.sub(r"^other\.(‹CP›\.)?", "", de)
                if di == "":
                    # positional into: into_existing must address the emission position (or an explicit index rename)
                    ok = de2 in ("‹EmitPos›", "‹That›")
                    chk.expect("R5", f"position{key}", ok, EXPAND, T["line"],
                               "into builds the tuple positionally (emission order) but into_existing addresses the declaration index: they diverge as soon as a field is skipped (ghost / parent)",
                               expected="other.<emission position>", found=de)
                else:
                    chk.expect("R5", f"dest{key}", di == de2, EXPAND, T["line"], "into and into_existing write different destination fields", expected=di, found=de)
        if "From" in ds and "Into" in ds and len(ds["From"]) == 1 and len(ds["Into"]) == 1:
            lf_, li = list(ds["From"])[0], list(ds["Into"])[0]
            di, _si = dest_and_src(li)
            if di == "" and re.search(r"value\.(‹CP›\.)?‹(DeclPos|Own)›", squash(lf_)) and "(Unnamed" in key or (di == "" and "‹DeclPos›" in lf_):
                chk.bad("R5", f"from-position{key}", EXPAND, T["line"],
                        "from reads the counterpart tuple at the declaration index while into fills it in emission order (they diverge when a field is skipped)", expected="value.<emission position>", found=lf_)
    chk.unit("into_existing_pairs", n)


def r6_assign_only(chk):
    repo = chk.repo
    chk.rule("R6", "every into_existing fragment is `other.<path> = ..;`; `*other = ..;` only replaces the body for `return`", floor=40)
    T = struct_iter_table(repo)
    seen = set()
    for lf in T["leaves"]:
        k = lf.get("ctx.kind")
        if direction(k) != "Existing" or lf.kind != "ok" or not lf.frags:
            continue
        for fr in lf.frags:
            s = squash(norm(show_toks(fr)))
            if not s or "struct_init_block_inner(" in s:
                continue
            c = cell_of(lf) if lf.get("members.peek()!.field_data") == "Field" else None
            key = "assign" + (cell_key(c) if c else f"[{lf.get('members.peek()!.field_data')}]")
            if key in seen:
                continue
            seen.add(key)
            flat = re.sub(r"‹[^›]*›", "‹X›", s)
            ok = flat.startswith("other.") and flat.endswith(";") and flat.count(";") == 1 and flat.count("=") == 1 and not flat.startswith("other.=")
            chk.expect("R6", key, ok, EXPAND, T["line"], "into_existing fragment is not a single assignment to a field of `other`", found=s[:120])
    tail = fn_table(repo, "struct_init_block_inner")
    for lf in tail["leaves"]:
        k = lf.get("ctx.kind")
        if direction(k) == "Existing" and lf.kind == "ok" and lf.toks is not None:
            upd = any(t[0] == "lit" and t[1] == "." for t in lf.toks[:1]) and len(lf.toks) > 1 and lf.toks[1][0] == "lit" and lf.toks[1][1] == "."
            has_update = any(a.endswith(".update") and v == "Some" for a, v in lf.d.items())
            if has_update:
                s = squash(show_toks(lf.toks))
                chk.expect("R6", "update-under-into_existing", ".." not in s, EXPAND, tail["fn_line"],
                           "`..update` is spliced after the assignments of an into_existing body (a dangling range expression: it supplies no fields)", found=s[:120])
                break
    # `*other = ..` (whole-value overwrite): wherever a template writes it, every evaluation path producing it is a quick-return path
    # of an into_existing conversion (decided by partial evaluation of the function holding the template, helpers inlined)
    from ..pe import Evaluator, explore, vkey
    from ..tables import IMPL_FILES
    holders = [fi for fi in repo.fns(EXPAND) if any(m["k"] == "Macro" and m["last"] == "quote" and re.search(r"\*\s*other\s*=", m["src"]) for m in walk(fi.body))]
    from ..skeleton import body_builders
    for _nm, bf, _pr in body_builders(repo):
        if not any(h.name == bf.name for h in holders):
            holders.append(bf)
    for fi in holders:
        key = f"{fi.qual}/overwrite-only-for-return"
        try:
            from ..linetables import OPAQUE
            opq = (set(OPAQUE) | {"quote_action", "struct_main_code_block", "enum_main_code_block"}) - {fi.name, "main_code_block", "main_code_block_ok"}
            lvs = explore(lambda: Evaluator(repo, IMPL_FILES, opaque=opq), lambda ev: ev.run_fn(fi, ev.sym_params(fi)))
        except Exception as ex:
            chk.inconc("R6", f"{key}: not evaluable ({ex!r})"[:200])
            continue
        if any(lf.unsupported or lf.panic for lf in lvs):
            chk.inconc("R6", f"{key}: not evaluable ({[lf.unsupported or lf.panic for lf in lvs if lf.unsupported or lf.panic][:1]})"[:200])
            continue
        bad = []
        n_over = 0
        for lf in lvs:
            v = squash(vkey(lf.value))
            if "*other=" not in v:
                continue
            n_over += 1
            qr = [val for a, val in lf.decisions.items() if a.endswith("quick_return")]
            k = lf.get("ctx.kind")
            if "Some" not in qr or direction(k) != "Existing":
                bad.append({"kind": k, "quick_return": qr, "value": v[:60]})
        chk.expect("R6", key, not bad, EXPAND, fi.line, "`*other = ..` outside the quick-return branch of an into_existing conversion clobbers unmapped fields", found=bad[:2], detail={"paths_overwriting": n_over})


def r7_chain_symmetry(chk):
    from ..tables import ATTR
    from .c05 import probe_sequence
    repo = chk.repo
    chk.rule("R7", "instruction lookup chains are flavour-symmetric: the by-ref chain is the owned chain with Owned<->Ref exchanged; the fallible chain extends the infallible one", floor=8)
    fa = repo.fn(ATTR, "applicable_attr", impl="MemberAttrs")
    fp = repo.fn(ATTR, "get_for_kind", impl="ParentChildField")
    mirror = {"OwnedInto": "RefInto", "FromOwned": "FromRef", "OwnedIntoExisting": "RefIntoExisting"}

    def mir(seq):
        return [tuple(mirror.get(x, x) if isinstance(x, str) else x for x in p) for p in seq]
    for ko, kr in mirror.items():
        for f in (False, True):
            so, _w, _n = probe_sequence(repo, fa, {"ghost", "field_attr_core"}, ko, f)
            sr, _w2, _n2 = probe_sequence(repo, fa, {"ghost", "field_attr_core"}, kr, f)
            chk.expect("R7", f"applicable_attr[{ko}~{kr},fallible={f}]", mir(so) == sr, ATTR, fa.line, "by-ref conversions look instructions up in a different order than owned ones", expected=mir(so), found=sr)
        po, _w, _n = probe_sequence(repo, fp, set(), ko, False, has_fallible=False)
        pr, _w2, _n2 = probe_sequence(repo, fp, set(), kr, False, has_fallible=False)
        chk.expect("R7", f"ParentChildField::get_for_kind[{ko}~{kr}]", mir(po) == pr, ATTR, fp.line, "nested-parent lookup: by-ref falls back differently than owned", expected=mir(po), found=pr)
    for k in list(mirror) + list(mirror.values()):
        s0, _w, _n = probe_sequence(repo, fa, {"ghost", "field_attr_core"}, k, False)
        s1, _w2, _n2 = probe_sequence(repo, fa, {"ghost", "field_attr_core"}, k, True)
        proj = [p for p in s1 if not (p[0] == "attr" and p[2] is True)]
        chk.expect("R7", f"applicable_attr[{k}]/fallible-extends", proj == s0, ATTR, fa.line, "the fallible chain must be the infallible chain with the fallible instruction tried first at each step", expected=s0, found=proj)


def run(chk):
    chk.guard("R7", lambda: r7_chain_symmetry(chk))
    chk.guard("R1", lambda: r1_lines(chk))
    chk.guard("R3", lambda: r3_skeletons(chk))
    chk.guard("R4", lambda: r4_ok_wrap(chk))
    chk.guard("R5", lambda: r5_into_vs_existing(chk))
    chk.guard("R6", lambda: r6_assign_only(chk))
    from .c12 import import_parse_contracts
    chk.guard("R8", lambda: import_parse_contracts(chk, "R8"))

    def r9():
        # struct-level ghost lines are part of the flavour agreement too: the into_existing form of a ghost line is the Into form with
        # `other.<child path>.` in front (C01.R3 decides the cells; imported)
        from ..core import Check, load_known
        from . import c01
        sub = Check("C01", chk.repo, chk.tier)
        sub.guard("R3", lambda: c01.r3_ghost_lines(sub))
        recorded = {(e["property"], e["key"]) for e in load_known() if e.get("status") == "known"}
        chk.rule("R9", "ghost lines of Into and into_existing agree (destination = `other.` + child path + name)", floor=4)
        for r_, why in sub.inconclusive:
            chk.inconc("R9", why)
        for i in sub.instances:
            if i.rule != "R3":
                continue
            if i.ok:
                chk.ok("R9", "ghost:" + i.key, i.file, i.line)
            elif ("C01", i.key) not in recorded:
                chk.bad("R9", "ghost:" + i.key, i.file, i.line, i.what, i.expected, i.found)
    chk.guard("R9", r9)

    def r10():
        # into (positional tuple literal) and into_existing (`other.<n> = ..`) agree on the slot only if the counter handed to the line
        # renderer is the emission position (C01.R12)
        from .c01 import emit_counter_rule
        emit_counter_rule(chk, "R10")
    chk.guard("R10", r10)
