"""Loader and syntax-tree helpers for the o2o static analyser.

Every run re-parses the current working tree of $O2O_REPO (default /repo) with the
`astdump` front-end (syn 2) and works on the resulting JSON syntax tree only.
"""
import json
import os
import subprocess

VERIF = os.path.dirname(os.path.dirname(os.path.abspath(__file__)))
ASTDUMP = os.path.join(VERIF, "sa", "target", "release", "astdump")

SOURCE_FILES = [
    "o2o-impl/src/ast.rs",
    "o2o-impl/src/attr.rs",
    "o2o-impl/src/expand.rs",
    "o2o-impl/src/validate.rs",
    "o2o-impl/src/kw.rs",
    "o2o-impl/src/lib.rs",
    "o2o-macros/src/lib.rs",
    "src/lib.rs",
    "src/traits.rs",
]


class Inconclusive(Exception):
    """The checker could not analyse a construct (anchor missing, unsupported shape)."""


def repo_root():
    return os.environ.get("O2O_REPO", "/repo")


class Repo:
    def __init__(self, root=None):
        self.root = root or repo_root()
        if not os.path.exists(ASTDUMP):
            raise Inconclusive(f"front-end not built: {ASTDUMP} (run MANIFEST.setup_cmd)")
        paths = [os.path.join(self.root, f) for f in SOURCE_FILES]
        missing = [p for p in paths if not os.path.exists(p)]
        present = [p for p in paths if os.path.exists(p)]
        out = subprocess.run([ASTDUMP] + present, capture_output=True, text=True, check=True).stdout
        raw = json.loads(out)
        self.files = {}
        self.errors = {}
        for f in SOURCE_FILES:
            p = os.path.join(self.root, f)
            if p in raw:
                if "error" in raw[p]:
                    self.errors[f] = raw[p]["error"]
                else:
                    self.files[f] = raw[p]
        for p in missing:
            self.errors[os.path.relpath(p, self.root)] = "missing"
        self._text = {}
        self._fn_index = None

    # ------------------------------------------------------------------ text
    def text(self, f):
        if f not in self._text:
            with open(os.path.join(self.root, f), encoding="utf-8") as fh:
                self._text[f] = fh.read()
        return self._text[f]

    def need(self, f):
        if f in self.errors:
            raise Inconclusive(f"{f}: {self.errors[f]}")
        if f not in self.files:
            raise Inconclusive(f"{f}: not loaded")
        return self.files[f]

    # ------------------------------------------------------------------ items
    def items(self, f, recurse_mods=True):
        """Yield (item, impl_self_ty|None, cfg_attrs) for all items in file f (flattening impls)."""
        def rec(items, cfgs):
            for it in items:
                a = [x for x in it.get("attrs", []) if x["path"] in ("cfg", "cfg_attr")]
                c = cfgs + a
                if it["k"] == "Impl":
                    yield it, None, c
                    for sub in it["items"]:
                        sa = [x for x in sub.get("attrs", []) if x["path"] in ("cfg", "cfg_attr")]
                        yield sub, it, c + sa
                elif it["k"] == "Mod" and recurse_mods and "items" in it:
                    yield it, None, c
                    yield from rec(it["items"], c)
                else:
                    yield it, None, c
        yield from rec(self.need(f)["items"], [])

    def is_test_item(self, cfgs):
        return any("test" in c["tokens"].replace(" ", "") and "feature" not in c["tokens"] for c in cfgs)

    def fns(self, f):
        """Yield FnInfo for all non-test fns of file f."""
        for it, impl, cfgs in self.items(f):
            if it["k"] == "Fn" and not self.is_test_item(cfgs):
                yield FnInfo(f, it, impl, cfgs)

    def all_fns(self, files=None):
        for f in files or [x for x in SOURCE_FILES if x in self.files]:
            yield from self.fns(f)

    def fn(self, f, name, impl=None, cfg=None):
        """Find a unique fn by name (and impl self type substring, and cfg feature)."""
        cands = []
        for fi in self.fns(f):
            if fi.name != name:
                continue
            if impl is not None and (fi.impl is None or not _impl_match(fi.impl, impl)):
                continue
            if cfg is not None and not any(cfg in c["tokens"].replace(" ", "") for c in fi.cfgs):
                continue
            cands.append(fi)
        if not cands:
            raise Inconclusive(f"anchor missing: fn {name} in {f}" + (f" (impl {impl})" if impl else ""))
        if len(cands) > 1 and cfg is None:
            # cfg-split siblings: caller must disambiguate
            raise Inconclusive(f"anchor ambiguous: fn {name} in {f}: {len(cands)} candidates")
        return cands[0]

    def fn_opt(self, f, name, impl=None, cfg=None):
        try:
            return self.fn(f, name, impl, cfg)
        except Inconclusive:
            return None

    def enum(self, f, name):
        for it, _impl, _c in self.items(f):
            if it["k"] == "Enum" and it["name"] == name:
                return it
        raise Inconclusive(f"anchor missing: enum {name} in {f}")

    def struct(self, f, name):
        for it, _impl, _c in self.items(f):
            if it["k"] == "Struct" and it["name"] == name:
                return it
        raise Inconclusive(f"anchor missing: struct {name} in {f}")

    def const(self, f, name):
        for it, _impl, _c in self.items(f):
            if it["k"] == "Const" and it["name"] == name:
                return it
        raise Inconclusive(f"anchor missing: const {name} in {f}")

    def impls(self, f):
        for it, _impl, cfgs in self.items(f):
            if it["k"] == "Impl":
                yield it, cfgs


def _impl_match(impl, want):
    st = impl["self_ty"].replace(" ", "")
    tr = (impl.get("trait") or "").replace(" ", "")
    want = want.replace(" ", "")
    if " for " in want:
        pass
    if want == st or want == tr:
        return True
    if tr and want == f"{tr}for{st}":
        return True
    # strip generics / lifetimes
    base = st.split("<")[0]
    return want == base


class FnInfo:
    def __init__(self, file, node, impl, cfgs):
        self.file = file
        self.node = node
        self.impl = impl
        self.cfgs = cfgs
        self.name = node["name"]
        self.body = node["body"]
        self.line = node["line"]

    @property
    def qual(self):
        if self.impl is not None:
            st = self.impl["self_ty"].replace(" ", "").split("<")[0]
            tr = self.impl.get("trait")
            if tr:
                tr = tr.replace(" ", "")
                return f"<{st} as {tr}>::{self.name}"
            return f"{st}::{self.name}"
        return self.name

    @property
    def params(self):
        out = []
        for inp in self.node["sig"]["inputs"]:
            if inp.get("self"):
                out.append("self")
            else:
                p = inp["pat"]
                out.append(p.get("name", "_"))
        return out

    def cfg_feature(self):
        for c in self.cfgs:
            t = c["tokens"].replace(" ", "")
            if 'feature="syn2"' in t and "all(" not in t:
                return "syn2"
            if 'feature="syn"' in t and "all(" not in t:
                return "syn"
        return None

    def __repr__(self):
        return f"<fn {self.file}:{self.qual}>"


# ---------------------------------------------------------------------- walking
def walk(node):
    """Yield every dict node carrying a 'k' key (pre-order)."""
    if isinstance(node, dict):
        if "k" in node:
            yield node
        for key, v in node.items():
            if key in ("tokens",):
                continue
            yield from walk(v)
    elif isinstance(node, list):
        for v in node:
            yield from walk(v)


def walk_with_parents(node, parents=()):
    if isinstance(node, dict):
        if "k" in node:
            yield node, parents
            parents = parents + (node,)
        for key, v in node.items():
            if key in ("tokens",):
                continue
            yield from walk_with_parents(v, parents)
    elif isinstance(node, list):
        for v in node:
            yield from walk_with_parents(v, parents)


def find(node, k, **kw):
    for n in walk(node):
        if n["k"] == k and all(n.get(a) == b for a, b in kw.items()):
            yield n


def macros(node, *names):
    for n in walk(node):
        if n["k"] == "Macro" and (not names or n["last"] in names):
            yield n


def method_calls(node, *names):
    for n in walk(node):
        if n["k"] == "MethodCall" and (not names or n["method"] in names):
            yield n


def calls(node, *names):
    """Plain function calls whose callee path's last segment is in names."""
    for n in walk(node):
        if n["k"] == "Call" and n["func"]["k"] == "Path":
            if not names or n["func"]["segs"][-1] in names:
                yield n


# ---------------------------------------------------------------------- rendering
def render_pat(p):
    k = p["k"]
    if k == "PWild":
        return "_"
    if k == "PIdent":
        s = ("ref " if p.get("by_ref") else "") + ("mut " if p.get("mut") else "") + p["name"]
        if "sub" in p:
            s += " @ " + render_pat(p["sub"])
        return s
    if k == "PPath":
        return p["path"]
    if k == "PTupleStruct":
        return p["path"] + "(" + ", ".join(render_pat(x) for x in p["elems"]) + ")"
    if k == "PStruct":
        fs = [f"{f['member']}: {render_pat(f['pat'])}" for f in p["fields"]]
        if p.get("rest"):
            fs.append("..")
        return p["path"] + " { " + ", ".join(fs) + " }"
    if k == "PTuple":
        return "(" + ", ".join(render_pat(x) for x in p["elems"]) + ")"
    if k == "POr":
        return " | ".join(render_pat(x) for x in p["cases"])
    if k == "PLit":
        return render_lit(p["lit"])
    if k == "PRef":
        return "&" + render_pat(p["pat"])
    if k == "PRest":
        return ".."
    if k == "PType":
        return render_pat(p["pat"]) + ": " + p["ty"]
    if k == "PSlice":
        return "[" + ", ".join(render_pat(x) for x in p["elems"]) + "]"
    return p.get("src", "?")


def render_lit(l):
    if l["lk"] == "str":
        return json.dumps(l["v"])
    if l["lk"] == "bool":
        return "true" if l["v"] else "false"
    if l["lk"] == "int":
        return str(l["v"]) + (l.get("suffix") or "")
    if l["lk"] == "char":
        return "'" + l["v"] + "'"
    return str(l["v"])


def render(e):
    """Canonical one-line rendering of an expression node (used for keys and shape tests)."""
    if e is None:
        return ""
    k = e["k"]
    if k == "Path":
        return e["path"]
    if k == "Lit":
        return render_lit(e["lit"])
    if k == "Field":
        return render(e["base"]) + "." + e["member"]
    if k == "MethodCall":
        return render(e["recv"]) + "." + e["method"] + (e.get("turbofish", "").replace(" ", "")) + "(" + ", ".join(render(a) for a in e["args"]) + ")"
    if k == "Call":
        return render(e["func"]) + "(" + ", ".join(render(a) for a in e["args"]) + ")"
    if k == "Macro":
        return e["name"] + "!(" + e["src"] + ")"
    if k == "Closure":
        return "|" + ", ".join(render_pat(p) for p in e["params"]) + "| " + render(e["body"])
    if k == "If":
        s = "if " + render(e["cond"]) + " " + render(e["then"])
        if "else" in e:
            s += " else " + render(e["else"])
        return s
    if k == "LetExpr":
        return "let " + render_pat(e["pat"]) + " = " + render(e["expr"])
    if k == "Match":
        arms = []
        for a in e["arms"]:
            g = (" if " + render(a["guard"])) if "guard" in a else ""
            arms.append(render_pat(a["pat"]) + g + " => " + render(a["body"]))
        return "match " + render(e["scrut"]) + " { " + ", ".join(arms) + " }"
    if k == "Block":
        return "{ " + " ".join(render_stmt(s) for s in e["stmts"]) + " }"
    if k == "Unsafe":
        return "unsafe " + render(e["body"])
    if k == "Unary":
        return e["op"] + render(e["expr"])
    if k == "Binary":
        return "(" + render(e["l"]) + " " + e["op"] + " " + render(e["r"]) + ")"
    if k == "Ref":
        return "&" + ("mut " if e.get("mut") else "") + render(e["expr"])
    if k == "Tuple":
        return "(" + ", ".join(render(x) for x in e["elems"]) + ")"
    if k == "Array":
        return "[" + ", ".join(render(x) for x in e["elems"]) + "]"
    if k == "Repeat":
        return "[" + render(e["expr"]) + "; " + render(e["len"]) + "]"
    if k == "Struct":
        fs = [f"{f['member']}: {render(f['expr'])}" for f in e["fields"]]
        if "rest" in e:
            fs.append(".." + render(e["rest"]))
        elif e.get("dotdot"):
            fs.append("..")
        return e["path"] + " { " + ", ".join(fs) + " }"
    if k == "Index":
        return render(e["expr"]) + "[" + render(e["index"]) + "]"
    if k == "Cast":
        return render(e["expr"]) + " as " + e["ty"]
    if k == "Return":
        return "return " + render(e.get("expr"))
    if k == "Break":
        return "break"
    if k == "Continue":
        return "continue"
    if k == "While":
        return "while " + render(e["cond"]) + " " + render(e["body"])
    if k == "Loop":
        return "loop " + render(e["body"])
    if k == "For":
        return "for " + render_pat(e["pat"]) + " in " + render(e["iter"]) + " " + render(e["body"])
    if k == "Assign":
        return render(e["l"]) + " = " + render(e["r"])
    if k == "Try":
        return render(e["expr"]) + "?"
    if k == "Range":
        return render(e.get("start")) + e["limits"] + render(e.get("end"))
    if k == "Other":
        return e["src"]
    return "<" + k + ">"


def render_stmt(s):
    k = s["k"]
    if k == "Let":
        r = "let " + render_pat(s["pat"])
        if "init" in s:
            r += " = " + render(s["init"])
        return r + ";"
    if k == "ExprStmt":
        return render(s["expr"]) + (";" if s.get("semi") else "")
    if k == "ItemStmt":
        return "<item>"
    return "<" + k + ">"


def strip_refs(e):
    """Peel &, &mut, .clone(), .as_ref(), paren."""
    while True:
        if e["k"] == "Ref":
            e = e["expr"]
        elif e["k"] == "MethodCall" and e["method"] in ("clone", "as_ref", "borrow", "to_owned") and not e["args"]:
            e = e["recv"]
        elif e["k"] == "Unary" and e["op"] == "*":
            e = e["expr"]
        else:
            return e


def enclosing_fn_of_line(repo, f, line):
    best = None
    for fi in repo.fns(f):
        if fi.node["line"] <= line <= fi.node["eline"]:
            if best is None or fi.node["line"] >= best.node["line"]:
                best = fi
    return best


def parse_snippets(reqs):
    """Ask the syn front-end to parse Rust snippets: reqs = [{"as": "file"|"expr"|"stmts"|"pat"|"type", "src": str}]."""
    out = subprocess.run([ASTDUMP, "--parse"], input=json.dumps(reqs), capture_output=True, text=True, check=True).stdout
    return json.loads(out)


def local_defs(fi):
    """{name: defining expression (whitespace-free)} for single-assignment, immutable `let name = <simple expr>;` locals of fn fi
    (hoisted sub-expressions). Used to read `let is_from = ctx.kind.is_from(); .. is_from ..` as the expression itself."""
    defs, counts = {}, {}
    for n in walk(fi.body):
        if n["k"] == "Let" and n.get("init") is not None:
            p = n["pat"]
            while p["k"] in ("PType",):
                p = p["pat"]
            if p["k"] == "PIdent" and not p.get("mut"):
                counts[p["name"]] = counts.get(p["name"], 0) + 1
                if n["init"]["k"] not in ("Closure", "Match", "If", "Block", "Macro"):
                    defs[p["name"]] = render(n["init"]).replace(" ", "")
    return {k: v for k, v in defs.items() if counts.get(k) == 1 and len(v) < 140}


def subst_locals(text, defs, rounds=3):
    """Replace bare occurrences of the locals in `defs` inside the whitespace-free expression text."""
    import re as _re
    for _ in range(rounds):
        t2 = _re.sub(r"(?<![\w.])([a-z_]\w*)(?![\w(!])", lambda m: defs.get(m.group(1), m.group(1)), text)
        if t2 == text:
            break
        text = t2
    return text
