"""C02 — enum conversions map each variant and payload field to its designated target."""
import re

from ..linetables import OPAQUE, TRANSPARENT, _cached, fn_table, struct_iter_table
from ..panics import constraint
from ..pe import Clos, Evaluator, ListV, SymObj, Toks, TupleV, explore, show_toks, vkey
from ..src import render_stmt, Inconclusive, method_calls, render, walk
from ..tables import EXPAND, IMPL_FILES, direction
from .c01 import cell_of, norm as norm_struct, squash

LEVEL = "other"
EXPLANATION = (
    "R1: render_enum_line's complete decision table (variant instruction state x literal x pattern x 6 kinds x type_hint x empty payload; ~1.5k leaves) "
    "compared with a reference model of the documented arm shapes: `Src::V <destructure> => Dst::V <init>,`, the rename applied on the counterpart side, a "
    "variant expression replacing the whole right side with the right @/~ substitutes, literal/pattern arms, the empty-payload pattern forms per type_hint. "
    "R2 (scope analysis of the generated arm): the binder each payload field gets from variant_destruct_block (own name, renamed member, or f{n}) is "
    "extracted per (shape, direction, hint, instruction state) and compared with the names the variant-mode line of the SAME cell reads. R3: one loop "
    "iteration of enum_init_block_inner: ghost variants are skipped in From, rendered with their default otherwise; the default-case emission formula. "
    "R5: counterpart-only (ghosts) arms. R6: arms are pushed in declaration order, ghost arms after, default last.")
NOT_DECIDED = ["runtime results", "that the user's variant expression type-checks", "enum x into_existing (outside the documented domain; reported by C17.R3)"]

TYS = "ctx.struct_attr.ty"


def norm(s):
    s = re.sub(r"variant_destruct_block\((?:[^()]|\([^()]*\))*\)", "DESTR", s)
    s = re.sub(r"struct_init_block\((?:[^()]|\([^()]*\))*\)", "INIT", s)
    for _ in range(4):
        s = re.sub(r"(variant_destruct_block|struct_init_block)\((?:[^()]|\((?:[^()]|\([^()]*\))*\))*\)", lambda m: "DESTR" if m.group(1).startswith("variant") else "INIT", s)
    s = re.sub(r"v\.attrs\.field_attr_core\([^()]*\)!", "ATTR", s)
    s = re.sub(r"v\.attrs\.ghost\([^()]*\)!", "GHOST", s)
    s = re.sub(r"v\.attrs\.lit\([^()]*\)!\.tokens", "LIT", s)
    s = re.sub(r"v\.attrs\.pat\([^()]*\)!\.tokens", "PAT", s)
    s = s.replace("ctx.src_ty", "SRC").replace("ctx.dst_ty", "DST").replace("v.ident", "V")
    s = re.sub(r"ATTR\.member!(#(Named|Unnamed)\.0)?", "That", s)
    s = re.sub(r"replace_tilde_or_at_in_expr\((ATTR|GHOST)\.action!, Some\((«[^»]*»)\), (Some\((«[^»]*»)\)|None)\)", lambda m: f"ACT[{m.group(1)}](@={m.group(2)}~={m.group(4) or '∅'})", s)
    return re.sub(r"\s+", "", s)


def enum_line_table(repo):
    def cons(d):
        if d.get("ctx.impl_type") in ("Struct", "Variant"):
            return False
        return constraint(d)
    return fn_table(repo, "render_enum_line", extra_opaque=("struct_init_block", "variant_destruct_block"), cache_name="fn_render_enum_line_enum", cons=cons)


def cell(lf):
    d = lf.d
    attr = None
    for a, v in d.items():
        if a.startswith("v.attrs.field_attr_core(") and a.endswith(")") and v == "Some":
            attr = {"kind": "Field", "member": d.get(a + "!.member"), "action": d.get(a + "!.action")}
    for a, v in d.items():
        if a.startswith("v.attrs.ghost(") and a.endswith(")") and v == "Some":
            attr = {"kind": "Ghost", "member": None, "action": d.get(a + "!.action")}
    hint = "Unspecified"
    for a, v in d.items():
        if a.endswith("!.type_hint"):
            hint = v
    if d.get(f"v.attrs.type_hint({TYS})") == "None":
        hint = "Unspecified"
    return {"kind": d.get("ctx.kind"), "dir": direction(d.get("ctx.kind")) if d.get("ctx.kind") else None, "attr": attr, "lit": d.get(f"v.attrs.lit({TYS})"), "pat": d.get(f"v.attrs.pat({TYS})"),
            "empty": d.get("v.fields.is_empty()"), "hint": hint}


def ckey(c):
    a = c["attr"]
    astr = "None" if a is None else f"{a['kind']}(member={a['member'] or '?'},action={a['action'] or '?'})"
    return f"({astr},lit={c['lit']},pat={c['pat']},{c['dir']},hint={c['hint']},empty={c['empty']})"


def expected_arm(c):
    d, a = c["dir"], c["attr"]
    at = "value" if d == "From" else "self"
    has_action = a is not None and a["action"] == "Some"
    has_member = a is not None and a["member"] == "Some"
    maybe_unit = c["hint"] in ("Unit", "Unspecified")
    if c["empty"] and (d != "From" or maybe_unit):
        destr = ""
    elif c["empty"] and d == "From" and c["hint"] == "Tuple":
        destr = "(..)"
    elif c["empty"] and d == "From" and c["hint"] == "Struct":
        destr = "{..}"
    else:
        destr = "‹DESTR›"
    init = "" if (has_action or (c["empty"] and maybe_unit)) else "‹INIT›"
    lit, pat = c["lit"] == "Some", c["pat"] == "Some"
    if d == "Existing":
        return None
    if a is None and not lit and not pat:
        return f"‹SRC›::‹V›{destr}=>‹DST›::‹V›{init},"
    if a is not None and a["kind"] == "Ghost":
        if d == "Into" and has_action and not lit and not pat:
            return f"‹SRC›::‹V›{destr}=>‹ACT[GHOST](@=«self»~=«‹DST›::»)›,"
        return None
    if a is not None and not lit and not pat:
        if d == "From":
            left = f"‹SRC›::‹{'That' if has_member else 'V'}›{destr}"
            right = "‹ACT[ATTR](@=«value»~=«‹DST›::‹V›»)›" if has_action else f"‹DST›::‹V›{init}"
            return f"{left}=>{right},"
        tgt = "‹That›" if has_member else "‹V›"
        if has_action:
            return f"‹SRC›::‹V›{destr}=>‹ACT[ATTR](@=«self»~=«‹DST›::{tgt}»)›,"
        if not has_member:
            return None  # neither name nor expression: C16 '12'
        return f"‹SRC›::‹V›{destr}=>‹DST›::{tgt}{init},"
    if a is None and lit and not pat:
        return f"‹LIT›=>‹DST›::‹V›{init}," if d == "From" else f"‹SRC›::‹V›{destr}=>‹LIT›,"
    if a is None and pat and not lit and d == "From":
        return f"‹PAT›=>‹DST›::‹V›{init},"
    if a is not None and pat and not lit and d == "Into":
        if not has_action:
            return None  # empty right side: reported by C17.R3
        return f"‹SRC›::‹V›{destr}=>‹ACT[ATTR](@=«self»~=«‹DST›::»)›,"
    return None  # todo!() cells: C16


def r1(chk):
    repo = chk.repo
    chk.rule("R1", "every (instruction, literal, pattern, kind, type_hint, payload) cell of render_enum_line emits the documented arm", floor=50)
    T = enum_line_table(repo)
    seen = {}
    n = 0
    for lf in T["leaves"]:
        if lf.kind != "ok" or lf.toks is None:
            continue
        c = cell(lf)
        if c["dir"] is None:
            continue
        key = ckey(c)
        got = norm(show_toks(lf.toks))
        variants_ = [c]
        if c["attr"] is not None and c["attr"]["kind"] == "Field":
            for fld in ("member", "action"):
                nxt = []
                for cv in variants_:
                    if cv["attr"][fld] is None:
                        for val in ("None", "Some"):
                            c2 = dict(cv)
                            c2["attr"] = dict(cv["attr"])
                            c2["attr"][fld] = val
                            nxt.append(c2)
                    else:
                        nxt.append(cv)
                variants_ = nxt
        exps = {expected_arm(cv) for cv in variants_}
        exps.discard(None)
        if len({squash(e_) for e_ in exps}) > 1:
            chk.bad("R1", f"arm{key}", EXPAND, T["fn_line"], "the arm does not depend on a part of the variant instruction (rename / expression) that the documented arm depends on",
                    expected=sorted(squash(e_) for e_ in exps), found=got)
            continue
        if not exps:
            continue
        exp = list(exps)[0]
        ok = got == squash(exp)
        n += 1
        if key in seen and seen[key] == ok:
            continue
        seen[key] = ok
        chk.expect("R1", f"arm{key}", ok, EXPAND, T["fn_line"], "emitted match arm differs from the documented shape", expected=squash(exp), found=got)
    chk.unit("enum_line_leaves", len(T["leaves"]))
    chk.unit("arms_compared", n)


def binder_table(repo):
    """PE of variant_destruct_block's per-field closures: (branch, kind, attr state) -> binder role."""
    fi = repo.fn(EXPAND, "variant_destruct_block")
    maps = [m for m in method_calls(fi.body, "map") if m["args"] and m["args"][0]["k"] == "Closure" and "quote!" in render(m["args"][0])]
    if len(maps) < 3:
        raise Inconclusive("variant_destruct_block: expected the struct-pattern, tuple-pattern and ghost binder closures")
    out = []
    for m in maps:
        cl = m["args"][0]
        filt = ""
        r_ = m["recv"]
        if r_["k"] == "MethodCall" and r_["method"] == "filter":
            filt = render(r_["args"][0]).replace(" ", "")

        def mk():
            e = Evaluator(repo, IMPL_FILES, opaque=OPAQUE, transparent=TRANSPARENT)
            e.strict = True
            e.inline_files = {EXPAND}
            return e

        def run(ev, cl=cl):
            env = ev.sym_params(fi)
            c = Clos(cl["params"], cl["body"], env, ev)
            return ev.call_closure(c, [SymObj("x", ("named", "Field"))])
        leaves = explore(mk, run, constraint=constraint)
        rows = []
        for lf in leaves:
            if lf.panic or lf.unsupported or not isinstance(lf.value, Toks):
                rows.append((dict(lf.decisions), None, lf.panic or lf.unsupported))
                continue
            s = show_toks(lf.value.toks)
            s = re.sub(r"x\.attrs\.field_attr_core\([^()]*\)!\.member!(#(Named|Unnamed)\.0)?", "That", s)
            s = re.sub(r"fident\(f\{\}; x\.idx\)", "FBind(DeclPos)", s)
            s = re.sub(r"fident\(([^;]*); ([^)]*)\)", lambda m_: f"FIDENT[{m_.group(1)}]({m_.group(2)})", s)
            s = re.sub(r"x\.member(#(Named|Unnamed)\.0)?", "Own", s)
            rows.append((dict(lf.decisions), squash(s), None))
        out.append({"line": m["line"], "filter": filt, "rows": rows})
    return out, fi


def r2(chk):
    repo = chk.repo
    chk.rule("R2", "binder/use agreement: the name the destructuring pattern binds for a payload field is the name the variant-mode line of the same cell reads", floor=20)
    bt, fi = binder_table(repo)
    # branch selection table of variant_destruct_block
    VT = fn_table(repo, "variant_destruct_block", cache_name="fn_variant_destruct_block_own")
    branch = {}
    for lf in VT["leaves"]:
        if lf.kind != "ok" or lf.toks is None:
            continue
        k = lf.get("ctx.kind")
        named = lf.get("input.named_fields")
        hint = lf.get("ctx.struct_attr.type_hint")
        t = lf.toks
        form = "none" if not t else {"{": "struct", "(": "tuple"}.get(t[0][1] if t[0][0] == "group" else "", "?")
        for h in ([hint] if hint else ["Struct", "Tuple", "Unit", "Unspecified"]):
            branch[(named, direction(k), h)] = form
    chk.unit("pattern_form_cells", len(branch))
    # binder role per (form, dir, attr state)
    struct_rows = [b for b in bt if any(r[1] and ("Own" in r[1] or "That" in r[1]) for r in b["rows"])]
    tuple_rows = [b for b in bt if any(r[1] and ("FBind(" in r[1] or "FIDENT[" in r[1]) for r in b["rows"]) and "ghost_ident" not in str(b["rows"])]
    if not struct_rows or not tuple_rows:
        raise Inconclusive("variant_destruct_block: binder closures not recognised")

    def binder_for(form, d, attr_member, has_attr):
        if form == "tuple":
            toks_ = {r[1].rstrip(",") for r in tuple_rows[0]["rows"] if r[1]}
            return {"FBind(*)"} if toks_ == {"‹FBind(DeclPos)›"} else toks_
        if form == "none":
            return set()
        res = set()
        for dec, tok, err in struct_rows[0]["rows"]:
            k = dec.get("ctx.kind")
            if k and direction(k) != d:
                continue
            a_some = any(a.startswith("x.attrs.field_attr_core(") and a.endswith(")") and v == "Some" for a, v in dec.items())
            g_some = any(a.startswith("x.attrs.ghost(") and v == "Some" for a, v in dec.items())
            if g_some:
                continue
            if d == "From" and a_some != has_attr:
                continue
            mem = [v for a, v in dec.items() if a.endswith("!.member")]
            if d == "From" and has_attr and mem and (mem[0] == "Some") != attr_member:
                continue
            if tok:
                res.add(tok.rstrip(","))
        return res
    IT = struct_iter_table(repo)
    seen = {}
    for lf in IT["leaves"]:
        if lf.get("members.peek()!.field_data") != "Field" or lf.kind != "ok" or not lf.frags or len(lf.frags) != 1:
            continue
        c = cell_of(lf)
        if c["impl"] != "Variant" or c["dir"] not in ("From", "Into") or c["post_init"] or c["child"] or c["parent"] or c["ghost"] is not None:
            continue
        if c["member"] not in ("Named", "Unnamed"):
            continue
        hints = [c["hint"]] if c["hint"] is not None else ["Struct", "Tuple", "Unspecified"]
        for hint_ in hints:
            check_scope(chk, c, hint_, lf, branch, binder_for, seen, fi)


def check_scope(chk, c, hint_, lf, branch, binder_for, seen, fi):
    if True:
        c = dict(c)
        c["hint"] = hint_
        line = norm_struct(show_toks(lf.frags[0]))
        # source-side names read by the line
        src_part = line
        if c["dir"] == "From":
            src_part = line.split(":", 1)[1] if (c["member"] == "Named" and ":" in line) else line
        else:
            src_part = line.split(":", 1)[1] if re.match(r"^‹[^›]*› :", line) else line
        uses = set(re.findall(r"‹(Own|That|FBind\((?:Own|DeclPos|That|EmitPos)\)|FBind\?\[[^›]*)›", src_part))
        uses |= set(re.findall(r"~=«‹(Own|That|FBind\((?:Own|DeclPos|That|EmitPos)\)|FBind\?\[[^›]*)›»", src_part))
        if not uses:
            return
        a = c["attr"]
        has_attr = a is not None
        attr_member = bool(a and a["member"] == "Some")
        form = branch.get((c["member"] == "Named", c["dir"], c["hint"]))
        if form is None:
            return
        # domain: combinations validation accepts — a name for a struct-form counterpart, an index or nothing for a tuple-form one
        if c["dir"] == "From" and form == "struct" and c["member"] == "Unnamed" and not has_attr:
            return
        if c["dir"] == "From" and a is not None and a["member"] is None and a["action"] is None:
            return
        if c["dir"] == "From" and c["hint"] == "Unit":
            return  # a unit counterpart variant has nothing to read from: outside the domain
        if form == "struct" and any(u == "FBind(That)" for u in uses):
            return  # index rename for a struct-form counterpart: contradictory instruction, outside the domain
        if form == "tuple" and "That" in uses and a is not None and a.get("member_kind") == "Named":
            return  # name rename for a tuple-form counterpart: contradictory instruction, outside the domain
        binders = binder_for(form, c["dir"], attr_member, has_attr)
        key = f"scope({c['member']},{'None' if a is None else 'attr(member=%s,action=%s)' % (a['member'] or '?', a['action'] or '?')},{c['dir']},{c['hint']})"
        ok = True
        for u in uses:
            if u == "FBind(EmitPos)" or u.startswith("FBind?["):
                ok = False  # payload bindings are f{declaration index}; the emission counter skips ghosts, any other format is unbound
            elif u.startswith("FBind("):
                ok = ok and ("FBind(*)" in binders)
            else:
                ok = ok and (f"‹{u}›" in binders)
        if key in seen and seen[key] == ok:
            return
        seen[key] = ok
        chk.expect("R2", key, ok, EXPAND, fi.line, "the variant arm reads a name its destructuring pattern does not bind (or binds an invalid pattern such as `{0,}`)",
                   expected={"pattern form": form, "binds": sorted(binders)}, found={"reads": sorted(uses), "line": line[:100]})


def enum_iter_table(repo):
    def compute():
        from ..pe import BreakEx, ContinueEx
        fi = repo.fn(EXPAND, "enum_init_block_inner")
        loops = [n for n in walk(fi.body) if n["k"] in ("While", "For")]
        if len(loops) != 1 or (loops[0]["k"] == "While" and loops[0]["cond"]["k"] != "LetExpr"):
            raise Inconclusive("enum_init_block_inner: expected one member loop")
        loop = loops[0]

        def mk():
            e = Evaluator(repo, IMPL_FILES, opaque=OPAQUE | {"render_enum_line", "render_enum_ghost_line"}, transparent=TRANSPARENT)
            e.strict = True
            e.inline_files = {EXPAND}
            return e

        def run(ev):
            from ..pe import NeedDecision, SymObj as _S
            env = ev.sym_params(fi)
            env["fragments"] = ListV([])
            # locals hoisted before the loop keep their definitions
            for st in fi.body["stmts"]:
                if st["line"] >= loop["line"]:
                    break
                if st["k"] == "Let" and st.get("init") is not None and st["init"]["k"] != "Closure":
                    p_ = st["pat"]
                    while p_["k"] in ("PType", "PRef"):
                        p_ = p_["pat"]
                    if p_["k"] == "PIdent" and p_["name"] not in env:
                        try:
                            env[p_["name"]] = ev.eval(st["init"], env)
                        except NeedDecision:
                            raise
                        except Exception:
                            env[p_["name"]] = _S(p_["name"], ("named", "?"))
            if loop["k"] == "While":
                src = ev.eval(loop["cond"]["expr"], env)
                if not ev.bind(loop["cond"]["pat"], src, env):
                    return ("exit", [])
            else:
                # one symbolic element of the member list (named like the peeked element of the while-let form)
                if not ev.bind(loop["pat"], _S("members.peek()!", ("named", "VariantData")), env):
                    return ("exit", [])
            try:
                ev.eval_block(loop["body"], env)
            except ContinueEx:
                return ("continue", [vkey(x) for x in env["fragments"].elems])
            except BreakEx:
                return ("break", [])
            return ("next", [vkey(x) for x in env["fragments"].elems])
        leaves = explore(mk, run, constraint=constraint)
        return [(dict(lf.decisions), lf.value if not (lf.panic or lf.unsupported) else None, lf.panic or lf.unsupported) for lf in leaves]
    return _cached(repo, "enum_iter", compute)


def r3(chk):
    repo = chk.repo
    chk.rule("R3", "ghost variants: skipped in From; skipped without a default otherwise; every other variant renders one arm; counterpart-only ghosts render one arm; default-case emission formula", floor=12)
    rows = enum_iter_table(repo)
    fi = repo.fn(EXPAND, "enum_init_block_inner")
    for dec, val, err in rows:
        md = dec.get("members.peek()!")
        k = dec.get("ctx.kind")
        if val is None:
            chk.inconc("R3", f"iteration leaf not evaluable: {err}")
            continue
        flow, frs = val
        if flow == "exit":
            continue
        if md == "Variant":
            g = [v for a, v in dec.items() if ".attrs.ghost(" in a and a.endswith(")")]
            ga = [v for a, v in dec.items() if ".attrs.ghost(" in a and a.endswith("!.action")]
            ghost = bool(g and g[0] == "Some")
            gact = bool(ga and ga[0] == "Some")
            d = direction(k)
            if not g and flow == "next":
                # the ghost instruction was never consulted on this path: a ghost variant would be rendered here
                must_skip = d == "From"
                chk.expect("R3", f"variant[{k},ghost=unconsulted]", not must_skip, EXPAND, fi.line, "this path renders the variant without looking at its ghost instruction (a From ghost variant must be skipped)",
                           found=[flow, [f[:40] for f in frs]])
                continue
            skip = (d == "From" and ghost) or (d != "From" and ghost and not gact)
            key = f"variant[{d},ghost={ghost},default={gact if ghost else '-'}]"
            if skip:
                chk.expect("R3", key, flow in ("continue", "next") and not frs, EXPAND, fi.line, "ghost variant must be skipped in this direction", found=[flow, frs])
            else:
                chk.expect("R3", key, flow == "next" and len(frs) == 1 and frs[0].startswith("render_enum_line("), EXPAND, fi.line, "variant must contribute exactly one arm", found=[flow, [f[:40] for f in frs]])
        elif md == "GhostData":
            chk.expect("R3", f"ghosts-entry[{direction(k) if k else '*'}]", flow == "next" and len(frs) == 1 and frs[0].startswith("render_enum_ghost_line("), EXPAND, fi.line,
                       "counterpart-only variant must contribute exactly one arm", found=[flow, [f[:40] for f in frs]])
    # default case formula
    T = fn_table(repo, "enum_init_block_inner")
    anys = [render(m["args"][0]).replace(" ", "") for m in method_calls(fi.body, "any")]
    want_any = ["|v|(v.attrs.lit(&ctx.struct_attr.ty).is_some()||v.attrs.pat(&ctx.struct_attr.ty).is_some())", "|v|v.attrs.ghost(&ctx.struct_attr.ty,&ctx.kind).is_some()"]
    # the two predicates of the default-case formula, decided as truth tables of the closures (whatever they are called / however
    # the counterpart type is passed): "some variant has a literal OR a pattern for this counterpart", "some variant is a ghost"
    from ..pe import Clos as _Clos, SymObj as _Sym
    from ..src import local_defs
    any_calls = [m for m in method_calls(fi.body, "any") if m["args"] and m["args"][0]["k"] == "Closure"]
    seen_pred = set()
    for m in any_calls:
        cl = m["args"][0]

        def mkp():
            e = Evaluator(repo, IMPL_FILES, opaque=OPAQUE, transparent=TRANSPARENT)
            return e

        def runp(ev, cl=cl):
            env = ev.sym_params(fi)
            for nm, dtxt in local_defs(fi).items():
                if nm not in env and dtxt in ("&ctx.struct_attr.ty", "ctx.kind.is_from()", "&ctx.kind"):
                    env[nm] = ev.eval({"k": "Field", "base": {"k": "Field", "base": {"k": "Path", "segs": ["ctx"], "path": "ctx"}, "member": "struct_attr"}, "member": "ty"}, env) if dtxt == "&ctx.struct_attr.ty" else _Sym(nm, ("named", "?"))
            c = _Clos(cl["params"], cl["body"], env, ev)
            return ev.truth(ev.call_closure(c, [_Sym("v", ("named", "Variant"))]))
        try:
            lvs = explore(mkp, runp)
        except Exception as ex:
            chk.inconc("R3", f"default-case predicate not evaluable: {ex!r}"[:160])
            continue
        if any(lf.unsupported or lf.panic for lf in lvs):
            chk.inconc("R3", "default-case predicate not evaluable: " + str([lf.unsupported or lf.panic for lf in lvs if lf.unsupported or lf.panic][:1])[:140])
            continue
        atoms = {a for lf in lvs for a in lf.decisions}
        kind_ = "litpat" if any(".lit(" in a or ".pat(" in a for a in atoms) else ("ghost" if any(".ghost(" in a for a in atoms) else None)
        if kind_ is None:
            continue
        seen_pred.add(kind_)
        bad_rows = []
        for lf in lvs:
            d = lf.decisions
            if kind_ == "litpat":
                lit = [v for a, v in d.items() if ".lit(" in a]
                pat = [v for a, v in d.items() if ".pat(" in a]
                some = ("Some" in lit) or ("Some" in pat)
                # a path that answers False without having looked at both lookups is wrong for the unconsulted one being Some
                complete = bool(lit) and bool(pat)
                if (lf.value is True) != some or (lf.value is False and not complete):
                    bad_rows.append({"lit": lit, "pat": pat, "result": lf.value})
            else:
                gh = [v for a, v in d.items() if ".ghost(" in a]
                if (lf.value is True) != ("Some" in gh) or not gh:
                    bad_rows.append({"ghost": gh, "result": lf.value})
        chk.expect("R3", f"default-case/predicate[{kind_}]", not bad_rows, EXPAND, m["line"],
                   "default-case predicate must hold exactly when a variant has a literal or a pattern for this counterpart" if kind_ == "litpat" else "default-case predicate must hold exactly when a variant is a ghost for this conversion",
                   found=bad_rows[:3])
    for need in ("litpat", "ghost"):
        if need not in seen_pred:
            chk.inconc("R3", f"default-case/predicate[{need}]: no `.any(closure)` consulting the corresponding lookup found in enum_init_block_inner")
    for lf in T["leaves"]:
        if lf.kind != "ok" or lf.toks is None:
            continue
        d = lf.d
        k = d.get("ctx.kind")
        dc = d.get("ctx.struct_attr.default_case")
        any_vals = [v for a, v in d.items() if ".any(" in a]
        litpat = None
        ghosts = None
        anyghost = None
        for a, v in d.items():
            if ".any(" in a and "lit(" in a:
                litpat = v
            elif ".any(" in a and "ghost(" in a:
                anyghost = v
            elif "ghosts_attr(" in a:
                ghosts = v == "Some"
        body = show_toks(lf.toks)
        pushed = "_" in [t[1] for t in (lf.toks[0][2] if lf.toks and lf.toks[0][0] == "group" else []) if t[0] == "lit"]
        if dc != "Some":
            exp = False
        elif direction(k) == "From":
            exp = bool(litpat) or bool(ghosts)
        else:
            exp = bool(anyghost)
        key = f"default-case[{direction(k)},given={dc},litpat={litpat},ghosts={ghosts},ghost_variants={anyghost}]"
        chk.expect("R3", key, pushed == exp, EXPAND, fi.line, "default `_ =>` arm emitted/omitted for the wrong combination", expected=exp, found=body[:80])


def r5_r6(chk):
    repo = chk.repo
    chk.rule("R5", "counterpart-only variants (#[ghosts]): `Src::Name => default,` in From, nothing otherwise", floor=4)
    G = fn_table(repo, "render_enum_ghost_line")
    for lf in G["leaves"]:
        k = lf.get("ctx.kind")
        gi = lf.get("ghost_data.ghost_ident")
        mk = lf.get("ghost_data.ghost_ident#Member.0")
        if lf.kind == "panic":
            continue
        if lf.kind != "ok" or lf.toks is None or lf.get("ctx.impl_type") in ("Struct", "Variant"):
            continue
        got = squash(show_toks(lf.toks))
        got = re.sub(r"replace_tilde_or_at_in_expr\(ghost_data\.action,Some\(«(value|self)»\),Some\(«[^»]*»\)\)", "DEFAULT", got)
        d = direction(k)
        if d == "From":
            name = "‹ghost_data.ghost_ident#Member.0#Named.0›" if gi == "Member" else "‹ghost_data.ghost_ident#Destruction.0›"
            exp = f"‹ctx.src_ty›::{name}=>‹DEFAULT›,"
        else:
            exp = ""
        chk.expect("R5", f"ghost-arm[{gi},{d}]", got == exp, EXPAND, G["fn_line"], "counterpart-only variant arm", expected=exp, found=got)
    chk.rule("R6", "arms keep declaration order: variants, then counterpart-only ghosts, default case last; no reordering adaptor", floor=2)
    fi = repo.fn(EXPAND, "enum_init_block")
    # order in which the arm list is filled: source position of the statement that adds the variants vs the one that adds the ghosts
    src_ = render(fi.body).replace(" ", "")
    pv = [m_.start() for m_ in re.finditer(r"VariantData::Variant\b", src_)]
    pg = [m_.start() for m_ in re.finditer(r"VariantData::GhostData\b", src_)]
    good = bool(pv) and bool(pg) and max(pv) < min(pg) and "input.variants.iter()" in src_
    bad_ = bool(pv) and bool(pg) and min(pg) < min(pv)
    chk.shape("R6", "enum_init_block/order", good, bad_, EXPAND, fi.line, what="variants must come first in declaration order, ghosts after", found={"variant_adds": len(pv), "ghost_adds": len(pg)})
    bad = [m["method"] for f_ in ("enum_init_block", "enum_init_block_inner") for m in method_calls(repo.fn(EXPAND, f_).body)
           if m["method"] in ("rev", "sort", "sort_by", "sort_by_key", "sort_unstable", "sort_unstable_by", "sort_by_cached_key", "reverse", "dedup", "swap", "retain", "partition",
                              "partition_in_place", "rotate_left", "rotate_right", "select_nth_unstable", "swap_remove", "skip", "take", "step_by")]
    chk.expect("R6", "no-reordering", not bad, EXPAND, fi.line, "reordering adaptor on the arm list", found=bad)
    fin = repo.fn(EXPAND, "enum_init_block_inner")
    st = fin.body["stmts"]
    idx_loop = [i for i, s_ in enumerate(st) if (s_.get("expr") or {}).get("k") in ("While", "For", "Loop")]
    idx_def = [i for i, s_ in enumerate(st) if i not in idx_loop and re.search(r"default_case", render_stmt(s_)) and re.search(r"push|extend|quote_action", render_stmt(s_))]
    good = bool(idx_loop) and bool(idx_def) and max(idx_loop) < min(idx_def)
    bad_ = bool(idx_loop) and bool(idx_def) and min(idx_def) < min(idx_loop)
    chk.shape("R6", "default-last", good, bad_, EXPAND, fin.line, what="default case must be pushed after all arms", found=[idx_loop, idx_def])


def run(chk):
    chk.guard("R1", lambda: r1(chk))
    chk.guard("R2", lambda: r2(chk))
    chk.guard("R3", lambda: r3(chk))
    chk.guard("R5", lambda: r5_r6(chk))
    from .c05 import import_lookup_contracts
    chk.guard("R7", lambda: import_lookup_contracts(chk, "R7", ["ghost", "lit", "pat", "type_hint", "field_attr_core", "ghosts_attr"]))
    from .c12 import import_parse_contracts
    chk.guard("R8", lambda: import_parse_contracts(chk, "R8"))

