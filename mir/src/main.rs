//! Nightly rustc_private driver: dumps type-resolved call / assert facts of the crate being compiled (used as a
//! completeness cross-check of the syntactic site enumerations of C16, C19, C20; thorough tier only).
//! Invoked through RUSTC_WORKSPACE_WRAPPER: argv = [driver, rustc, args...]. Facts are appended (one write per process)
//! to $O2O_MIR_OUT for crates whose name is in $O2O_MIR_CRATES (comma separated).
#![feature(rustc_private)]
extern crate rustc_driver;
extern crate rustc_hir;
extern crate rustc_interface;
extern crate rustc_middle;
extern crate rustc_span;

use rustc_driver::Compilation;
use rustc_hir::def::DefKind;
use rustc_middle::mir::{Operand, TerminatorKind};
use rustc_middle::ty::TyCtxt;
use std::fmt::Write as _;

struct Cb;

fn esc(s: &str) -> String {
    s.replace('\\', "\\\\").replace('"', "\\\"").replace('\n', " ")
}

impl rustc_driver::Callbacks for Cb {
    fn after_analysis<'tcx>(&mut self, _c: &rustc_interface::interface::Compiler, tcx: TyCtxt<'tcx>) -> Compilation {
        let krate = tcx.crate_name(rustc_span::def_id::LOCAL_CRATE).to_string();
        let want = std::env::var("O2O_MIR_CRATES").unwrap_or_default();
        if !want.split(',').any(|c| c == krate) {
            return Compilation::Continue;
        }
        let mut out = String::new();
        let sm = tcx.sess.source_map();
        for ldid in tcx.hir_body_owners() {
            let did = ldid.to_def_id();
            match tcx.def_kind(did) {
                DefKind::Fn | DefKind::AssocFn | DefKind::Closure => {}
                _ => continue,
            }
            let caller = tcx.def_path_str(did);
            let body = tcx.optimized_mir(did);
            for bb in body.basic_blocks.iter() {
                let Some(term) = &bb.terminator else { continue };
                let span = term.source_info.span;
                let cs = span.source_callsite();
                let loc = sm.lookup_char_pos(cs.lo());
                let file = format!("{}", loc.file.name.prefer_local_unconditionally());
                let from_exp = span.from_expansion();
                match &term.kind {
                    TerminatorKind::Call { func, args, .. } => {
                        let callee = match func.const_fn_def() {
                            Some((d, ga)) => tcx.def_path_str_with_args(d, ga),
                            None => "<indirect>".to_string(),
                        };
                        let mut consts = vec![];
                        for a in args.iter() {
                            if let Operand::Constant(c) = &a.node {
                                consts.push(esc(&format!("{}", c.const_)));
                            }
                        }
                        let _ = writeln!(out, "{{\"k\":\"call\",\"crate\":\"{}\",\"caller\":\"{}\",\"callee\":\"{}\",\"file\":\"{}\",\"line\":{},\"exp\":{},\"consts\":[{}]}}",
                            krate, esc(&caller), esc(&callee), esc(&file), loc.line, from_exp,
                            consts.iter().map(|c| format!("\"{}\"", c)).collect::<Vec<_>>().join(","));
                    }
                    TerminatorKind::Assert { msg, .. } => {
                        let _ = writeln!(out, "{{\"k\":\"assert\",\"crate\":\"{}\",\"caller\":\"{}\",\"msg\":\"{}\",\"file\":\"{}\",\"line\":{},\"exp\":{}}}",
                            krate, esc(&caller), esc(&format!("{:?}", msg).chars().take(160).collect::<String>()), esc(&file), loc.line, from_exp);
                    }
                    _ => {}
                }
            }
        }
        if let Ok(p) = std::env::var("O2O_MIR_OUT") {
            use std::io::Write;
            if let Ok(mut f) = std::fs::OpenOptions::new().create(true).append(true).open(p) {
                let _ = f.write_all(out.as_bytes());
            }
        }
        Compilation::Continue
    }
}

fn main() {
    let mut args: Vec<String> = std::env::args().collect();
    // RUSTC_WORKSPACE_WRAPPER: argv[1] is the real rustc path
    if args.len() > 1 && (args[1].ends_with("rustc") || args[1].contains("/rustc")) {
        args.remove(1);
    }
    rustc_driver::run_compiler(&args, &mut Cb);
}
