#!/usr/bin/env python3
"""Round 6: generate one prompt file per property under /tmp (outside /verif; the agent reads only that file and its worktree).
usage: mk_prompts.py C01 C02 ...   -> /tmp/prompt-cNN.txt + git worktree /tmp/wt-cNN-r6"""
import glob, json, os, sys
HERE = os.path.dirname(os.path.abspath(__file__))
props = {json.loads(l)['id']: json.loads(l) for l in open('/verif/properties.jsonl')}
common = open(os.path.join(HERE, 'agent_common.txt')).read()
extra = open(os.path.join(HERE, 'agent_common5.txt')).read()
for p in sys.argv[1:]:
    d = props[p]
    done = []
    for m in sorted(glob.glob('/verif/seeded/%s-*/meta.json' % p.lower())):
        j = json.load(open(m))
        done.append('- %s: %s' % (j['id'][4:], j.get('needs_to_manifest', '')))
    wt = '/tmp/wt-%s-r6' % p.lower()
    txt = "Your scratch git worktree of the o2o repository (a Rust derive proc-macro) is %s . Work only there.\n\nPROPERTY %s\n" % (wt, p)
    for k in ['title', 'statement', 'quantifier', 'why_tests_cant', 'anchors']:
        if k in d:
            txt += "%s: %s\n" % (k, json.dumps(d[k]) if not isinstance(d[k], str) else d[k])
    txt += "\n" + common + "\n" + extra + "\nALREADY DONE:\n" + "\n".join(done) + "\n"
    open('/tmp/prompt-%s.txt' % p.lower(), 'w').write(txt)
    os.system('git -C /repo worktree add -q %s HEAD' % wt)
