#!/bin/bash
# maintenance helper: like seed.sh, but confirms in the agent's own worktree and runs the 20 checks on a scratch copy (O2O_REPO), so
# several can run in parallel and /repo is never patched.   usage: tools/seed_par.sh <id> <PROP> <agent-worktree>
set -u
ID=$1; PROP=$2; WT=$3
V=$WT
OUT=/verif/seeded/$ID
mkdir -p $OUT
cp $WT/patch.diff $OUT/patch.diff
[ -f $WT/NOTES.md ] && cp $WT/NOTES.md $OUT/agent_notes.md
DEMO=""
if [ -f $WT/o2o-tests/tests/zz_demo.rs ]; then cp $WT/o2o-tests/tests/zz_demo.rs $OUT/zz_demo.rs; DEMO=test; fi
if [ -d $WT/demo ]; then mkdir -p $OUT/demo/src; cp $WT/demo/Cargo.toml $OUT/demo/; cp $WT/demo/src/main.rs $OUT/demo/src/; DEMO=${DEMO:-crate}; [ -f $WT/demo/run.sh ] && { cp $WT/demo/run.sh $OUT/demo/; DEMO=script; }; fi
git -C $V checkout -q -- . ; git -C $V clean -fdq
git -C $V apply $OUT/patch.diff || { echo "$ID PATCH DOES NOT APPLY"; exit 1; }
export CARGO_TARGET_DIR=$V/target CARGO_NET_OFFLINE=true
cd $V
SUITE=$(cargo test --workspace --no-fail-fast --offline 2>&1 | awk '/^test result/ {p+=$4; f+=$6} END {print "passed=" p " failed=" f}')
run_demo() {
  if [ "$DEMO" = test ]; then
    cp $OUT/zz_demo.rs $V/o2o-tests/tests/zz_demo.rs
    cargo test -p o2o-tests --features syn1 --test zz_demo --offline 2>&1 | grep -E "^test result|^error: could not compile" | head -1
    rm -f $V/o2o-tests/tests/zz_demo.rs
  else
    mkdir -p $V/demo/src; sed "s#/tmp/wt-c[0-9]*\(-r[0-9]*\)\?#$V#g" $OUT/demo/Cargo.toml > $V/demo/Cargo.toml; cp $OUT/demo/src/main.rs $V/demo/src/; cp /repo/Cargo.lock $V/demo/Cargo.lock
    (cd $V/demo && CARGO_TARGET_DIR=$V/target/demo cargo run --offline -q >/dev/null 2>&1; echo "demo exit=$?")
    rm -rf $V/demo
  fi
}
WITH=$(run_demo)
git -C $V apply -R $OUT/patch.diff
WITHOUT=$(run_demo)
cd /verif
T=$(mktemp -d /tmp/o2o-copy-XXXXXX)
(cd /repo && tar cf - --exclude=target --exclude=.git . ) | (cd $T && tar xf -)
(cd $T && patch -s -p1 < $OUT/patch.diff)
FIRED=""
for n in $(seq -w 1 20); do
  r=$(O2O_REPO=$T O2O_SCRATCH_EVIDENCE=1 ./check C$n 2>&1); c=$?
  if [ $c -eq 1 ]; then FIRED="$FIRED C$n"; echo "$r" | grep -A1 "^VIOLATION" | grep "rule=" | head -2 | cut -c1-220 > $OUT/report_C$n.txt; fi
  if [ $c -eq 2 ]; then FIRED="$FIRED C$n(inconclusive)"; fi
done
rm -rf $T
echo "$ID prop=$PROP suite_with_change: $SUITE | demo with change: $WITH | demo without: $WITHOUT | checks firing:$FIRED"
cat > $OUT/meta.json <<EOM
{"id": "$ID", "breaks_property": "$PROP", "source": "independent sub-agent given only the property text and a scratch worktree",
 "suite_with_change": "$SUITE (the 1 failure is the pre-existing o2o-macros doctest)", "demo_with_change": "$WITH", "demo_without_change": "$WITHOUT",
 "checks_firing": "$FIRED", "what_i_ran": "tools/seed_par.sh: git apply in a scratch worktree; cargo test --workspace --no-fail-fast --offline; demo with and without the patch; then all 20 quick checks against a patched scratch copy of /repo (O2O_REPO)"}
EOM
