"""C12 — shortcut instructions equal the basic instructions they abbreviate."""
import re

from ..pe import Evaluator, ListV, StructV, SymObj, Tag, explore, vkey
from ..src import Inconclusive, render, walk, walk_with_parents
from ..tables import (ATTR, EXPAND, IMPL_FILES, MEMBER_NAMES, TRAIT_NAMES, VALIDATE, applicable_kinds, instr_table, kind_slots, kinds,
                      readme_shortcut_matrix, trait_attr_of)

LEVEL = "other"
EXPLANATION = (
    "A shortcut and its written-out basics produce the same impls iff (R1) the shortcut's applicability vector is the OR of the "
    "basics' unit vectors with the same fallibility and otherwise the same parsed payload — extracted by partially evaluating the "
    "three name tables (type level 24 names, member level 21 + ghost/ghosts, nested-parent 12) for every name — and (R2) every "
    "consumer reads instructions only per kind through `applicable_to[kind]` (all reads of applicable_to are enumerated; raw "
    "iterations over ghost vectors that ignore it are reported). R3: every attribute name registered on the derive is recognised. "
    " R4 imports the lookup contracts (a written-out pair is several entries, the shortcut one).")
EXPLANATION += ' R5 the uniqueness diagnostics of validate_dedicated_member_attrs are switched on exactly for single-entry vectors (parent, literal, pattern, type_hint) and off for per-kind vectors (attrs, ghost_attrs), where a written-out pair of basics is legal like its shortcut.'
NOT_DECIDED = ["token equality of the two expansions as such (follows only to the extent that all consumers are per-kind, which R2 enumerates)"]

EXPANSION = {
    "from": ["from_owned", "from_ref"], "into": ["owned_into", "ref_into"], "map": ["from_owned", "from_ref", "owned_into", "ref_into"],
    "map_owned": ["from_owned", "owned_into"], "map_ref": ["from_ref", "ref_into"], "into_existing": ["owned_into_existing", "ref_into_existing"],
    "try_from": ["try_from_owned", "try_from_ref"], "try_into": ["owned_try_into", "ref_try_into"],
    "try_map": ["try_from_owned", "try_from_ref", "owned_try_into", "ref_try_into"], "try_map_owned": ["try_from_owned", "owned_try_into"],
    "try_map_ref": ["try_from_ref", "ref_try_into"], "try_into_existing": ["owned_try_into_existing", "ref_try_into_existing"],
    "ghost": ["ghost_owned", "ghost_ref"], "ghosts": ["ghosts_owned", "ghosts_ref"],
}
BASIC_VECTORS = {
    "from_owned": {"FromOwned"}, "from_ref": {"FromRef"}, "owned_into": {"OwnedInto"}, "ref_into": {"RefInto"},
    "owned_into_existing": {"OwnedIntoExisting"}, "ref_into_existing": {"RefIntoExisting"},
    "try_from_owned": {"FromOwned"}, "try_from_ref": {"FromRef"}, "owned_try_into": {"OwnedInto"}, "ref_try_into": {"RefInto"},
    "owned_try_into_existing": {"OwnedIntoExisting"}, "ref_try_into_existing": {"RefIntoExisting"},
    "ghost_owned": {"OwnedInto", "FromOwned", "OwnedIntoExisting"}, "ghost_ref": {"RefInto", "FromRef", "RefIntoExisting"},
    "ghosts_owned": {"OwnedInto", "FromOwned", "OwnedIntoExisting"}, "ghosts_ref": {"RefInto", "FromRef", "RefIntoExisting"},
}


def payload_sig(st):
    return {k: vkey(v) for k, v in st.fields.items() if k not in ("applicable_to", "original_instr")}


def table_of(chk, fn_name):
    rows, fi = instr_table(chk.repo, fn_name)
    slots, _ = kind_slots(chk.repo)
    out = {}
    for r in rows:
        lf = r["leaf"]
        if lf.panic or lf.unsupported:
            continue
        var, st = trait_attr_of(lf.value)
        if st is not None and "applicable_to" in st.fields:
            out.setdefault(r["name"], []).append((var, st, applicable_kinds(st, slots), r["flags"]))
    return out, fi


def check_level(chk, level, tbl, fi, names, file=ATTR):
    for n in names:
        key = f"{level}[{n}]"
        if n not in tbl:
            chk.bad("R1", key, file, fi.line, "documented instruction name is not recognised at this level", found="no arm")
            continue
        for var, st, ks, flags in tbl[n]:
            if "fallible" in st.fields and re.fullmatch(r"(owned_|ref_)?(try_)?(into|from|map)(_owned|_ref|_existing)?", n):
                fv = st.fields["fallible"]
                want = "try" in n.split("_")
                if isinstance(fv, bool):
                    chk.expect("R1", key + "/fallible", fv == want, file, fi.line, "fallibility flag of the instruction disagrees with its name (try_ forms are fallible, all others are not)", expected=want, found=fv)
                else:
                    chk.inconc("R1", f"{key}/fallible: flag is not a constant the evaluator can decide: {vkey(fv)[:80]}")
            if n in BASIC_VECTORS:
                chk.expect("R1", key, ks == BASIC_VECTORS[n], file, fi.line, "basic instruction is not a unit vector for its own kind", expected=sorted(BASIC_VECTORS[n]), found=sorted(ks))
            if n in EXPANSION:
                exp = set()
                ok_payload = True
                missing = [b for b in EXPANSION[n] if b not in tbl]
                if missing:
                    chk.bad("R1", key, file, fi.line, "basic instruction of the documented expansion is not recognised", found=missing)
                    continue
                for b in EXPANSION[n]:
                    bvar, bst, bks, _ = tbl[b][0]
                    exp |= bks
                    if bvar != var or payload_sig(bst) != payload_sig(st):
                        ok_payload = False
                chk.expect("R1", key, ks == exp and ok_payload, file, fi.line, "shortcut differs from the OR of the basics it abbreviates (kinds, fallibility or payload parser)",
                           expected=sorted(exp), found={"kinds": sorted(ks), "same_payload": ok_payload})


def r1(chk):
    chk.rule("R1", "applicable_to(shortcut) = OR applicable_to(basic) over the documented expansion, same fallibility and payload parser; basics are unit vectors", floor=60)
    t1, f1 = table_of(chk, "parse_data_type_instruction")
    check_level(chk, "type", t1, f1, TRAIT_NAMES + ["ghosts", "ghosts_owned", "ghosts_ref"])
    t2, f2 = table_of(chk, "parse_member_instruction")
    check_level(chk, "member", t2, f2, MEMBER_NAMES + ["ghost", "ghost_owned", "ghost_ref", "ghosts", "ghosts_owned", "ghosts_ref"])
    # nested parent list: the match inside <ParentChildFieldAsParsed as Parse>::parse
    repo = chk.repo
    fi = repo.fn(ATTR, "parse", impl="ParentChildFieldAsParsed")
    ms = [n for n in walk(fi.body) if n["k"] == "Match" and any(True for a in n["arms"] for _ in __import__("o2ov.pe", fromlist=["pat_strs"]).pat_strs(a["pat"]))]
    if len(ms) != 1:
        raise Inconclusive("nested parent: expected one string match in ParentChildFieldAsParsed::parse")
    slots, _ = kind_slots(repo)
    mnode = ms[0]

    from ..tables import string_predicates
    preds = string_predicates(repo)

    def mk():
        return Evaluator(repo, IMPL_FILES, shallow=True, transparent=preds)

    def run(ev):
        env = {"instr_str": SymObj("instr_str", ("str",)), "content_inner": SymObj("content_inner", ("named", "ParseBuffer")),
               "instr": SymObj("instr", ("named", "Ident")), "attrs": ListV([]), "parent_attr": Tag("None", [], "Option"), "input": SymObj("input", ("named", "ParseStream"))}
        ev.eval(mnode, env)
        return env["attrs"]

    leaves = explore(mk, run)
    t3 = {}
    for lf in leaves:
        n = lf.get("instr_str")
        if lf.panic or lf.unsupported or not isinstance(lf.value, ListV):
            continue
        for el in lf.value.elems:
            if isinstance(el, StructV) and "applicable_to" in el.fields:
                t3.setdefault(n, []).append(("ParentChildFieldAttr", el, applicable_kinds(el, slots), {}))
    nested_names = [n for n in TRAIT_NAMES if "try" not in n]
    check_level(chk, "nested-parent", t3, fi, nested_names)
    extra = sorted(set(t3) - set(nested_names))
    chk.expect("R1", "nested-parent/extra", not extra, ATTR, fi.line, "undocumented nested-parent instruction names", found=extra)
    chk.unit("name_table_rows", sum(len(v) for v in t1.values()) + sum(len(v) for v in t2.values()) + sum(len(v) for v in t3.values()))
    # README: documented expansion table == EXPANSION for the six type-level shortcuts
    matrix, _n, mline = readme_shortcut_matrix(repo)
    for s, basics in matrix.items():
        chk.expect("R1", f"README-matrix/{s}", set(EXPANSION.get(s, [])) == basics, "README.md", mline, "checker's expansion table disagrees with README", expected=sorted(basics), found=EXPANSION.get(s))


def r2(chk):
    """Consumers: every read of `.applicable_to` is an index by a kind (or the trait-level repeat key / a literal)."""
    repo = chk.repo
    chk.rule("R2", "every read of an applicability vector is `applicable_to[<kind>]` (per-kind), a struct-literal field, or the repeat-map key; ghost vectors are never iterated without it", floor=10)
    n = 0
    for f in IMPL_FILES:
        for fi in repo.fns(f):
            ordinal = {}
            for node, parents in walk_with_parents(fi.body):
                if node["k"] == "Field" and node["member"] == "applicable_to":
                    par = parents[-1] if parents else None
                    base = render(node["base"])
                    o = ordinal.get(base, 0)
                    ordinal[base] = o + 1
                    key = f"{fi.qual}:{base}.applicable_to#{o}"
                    n += 1
                    if par is not None and par["k"] == "Index" and par["expr"] is node:
                        idx = render(par["index"])
                        ok = bool(re.fullmatch(r"&?(kind|Kind::\w+|ctx\.kind|\*?kind)", idx.replace(" ", "")))
                        chk.expect("R2", key, ok, f, node["line"], "applicable_to indexed by something that is not a Kind", found=idx)
                    elif par is not None and par["k"] == "Tuple" and len(par["elems"]) == 2 and render(par["elems"][1]).replace(" ", "").endswith(".fallible") and f == ATTR:
                        chk.ok("R2", key, f, node["line"], detail="trait-level repeat key (applicable_to, fallible): name identity")
                    elif par is not None and par["k"] == "MethodCall" and par["method"] in ("iter", "into_iter", "contains", "any", "all") or (par is not None and par["k"] in ("For", "Binary")):
                        chk.bad("R2", key, f, node["line"], "applicability vector read as a whole (iterated / compared) instead of per kind", found=render(par)[:100])
                    else:
                        chk.inconc("R2", f"{key} at {f}:{node['line']}: applicability vector used in a way the rule does not classify: " + (render(par)[:80] if par else "?"))
    # ghost vectors iterated raw in expand.rs (shared with C06.R1)
    for fi in repo.fns(EXPAND):
        for node, parents in walk_with_parents(fi.body):
            if node["k"] == "Field" and node["member"] in ("ghosts_attrs", "ghost_attrs"):
                if len(parents) >= 2 and parents[-1]["k"] == "MethodCall" and parents[-1]["method"] == "clone" and parents[-2]["k"] == "Struct" \
                        and any(f["member"] == node["member"] and f["expr"] is parents[-1] for f in parents[-2]["fields"]):
                    chk.ok("R2", f"{fi.qual}:move {render(node)}", EXPAND, node["line"], detail="moved wholesale into the synthetic variant struct")
                    continue
                # struct-literal field copy in render_enum_line is a move into the synthetic variant struct
                key = f"{fi.qual}:raw {render(node)}"
                chk.bad("R2", key, EXPAND, node["line"], "ghost instructions read without their per-kind applicability flags (ghosts_owned + ghosts_ref both apply to every kind here)", found=render(node))


def r3(chk):
    repo = chk.repo
    chk.rule("R3", "every attribute name registered on the derive is recognised by a name table in its bare (non-o2o) form", floor=30)
    mf = repo.need("o2o-macros/src/lib.rs")
    reg = None
    line = 1
    for it in mf["items"]:
        if it["k"] == "Fn":
            for a in it["attrs"]:
                if a["path"] == "proc_macro_derive":
                    m = re.search(r"attributes\s*\((.*)\)", a["tokens"], re.S)
                    if m:
                        reg = [x.strip() for x in m.group(1).split(",") if x.strip()]
                        line = a["line"]
    if reg is None:
        raise Inconclusive("proc_macro_derive(o2o, attributes(..)) not found")
    t1, f1 = instr_table(repo, "parse_data_type_instruction")
    t2, f2 = instr_table(repo, "parse_member_instruction")

    def recognised(rows, name):
        for r in rows:
            if r["name"] == name and r["flags"].get("own_instr", False) is False and r["flags"].get("bark", True) is True:
                lf = r["leaf"]
                if lf.panic or lf.unsupported:
                    return False
                var, _ = trait_attr_of(lf.value)
                return var not in ("Unrecognized", None)
        return False

    for name in reg:
        if name == "o2o":
            continue
        ok = recognised(t1, name) or recognised(t2, name)
        chk.expect("R3", f"attributes[{name}]", ok, "o2o-macros/src/lib.rs", line, "registered attribute is silently ignored by both name tables", found=name)
    # and every documented shortcut/basic with a bare form is registered
    for name in TRAIT_NAMES + ["ghost", "ghosts", "child", "child_parents", "parent", "where_clause", "literal", "pattern", "type_hint", "o2o"]:
        chk.expect("R3", f"registered[{name}]", name in reg, "o2o-macros/src/lib.rs", line, "documented bare attribute is not registered on the derive (rustc would reject it)", found=name)


def type_hint_contract(chk, rule):
    """try_parse_type_hint: `as {}` -> Struct, `as ()` -> Tuple, `as Unit` -> Unit, no `as` -> Unspecified (nothing consumed), anything else an
    error. Decided by partial evaluation over the peek results (the three token classes are mutually exclusive)."""
    repo = chk.repo
    fi = repo.fn(ATTR, "try_parse_type_hint")
    want = {"Brace": "Struct", "Paren": "Tuple", "kw::Unit": "Unit"}
    leaves = explore(lambda: Evaluator(repo, IMPL_FILES, shallow=True), lambda ev: ev.run_fn(fi, ev.sym_params(fi)))
    seen = set()
    for lf in leaves:
        if lf.panic or lf.unsupported:
            chk.inconc(rule, f"try_parse_type_hint not evaluable: {lf.panic or lf.unsupported}")
            continue
        d = {re.sub(r"^input\.peek\((.*)\)$", r"\1", a): v for a, v in lf.decisions.items() if a.startswith("input.peek(")}
        other = [a for a in lf.decisions if not a.startswith("input.peek(")]
        got = vkey(lf.value)
        if other or not set(d) <= set(want) | {"Token![as]"}:
            chk.inconc(rule, f"try_parse_type_hint branches on something other than the documented token classes: {sorted(lf.decisions)[:4]}")
            continue
        if d.get("Token![as]") is False:
            consumed = [e for e in lf.effects if e[1:2] == ("parse",) or e[0] in ("braced", "parenthesized")]
            chk.expect(rule, "type_hint[none]", got == "Ok(Unspecified)" and not consumed, ATTR, fi.line, "no `as`: the hint must be Unspecified and nothing may be consumed", expected="Ok(Unspecified)", found=got)
            seen.add("none")
            continue
        on = [k for k, v in d.items() if v is True and k in want]
        if len(on) > 1:
            continue  # infeasible: the next token cannot be of two classes
        if not on:
            chk.expect(rule, "type_hint[as <other>]", got.startswith("Err("), ATTR, fi.line, "an unsupported hint must be an error", found=got[:60])
            seen.add("other")
        else:
            chk.expect(rule, f"type_hint[as {on[0]}]", got == f"Ok({want[on[0]]})", ATTR, fi.line, "type hint token class mapped to the wrong TypeHint", expected=f"Ok({want[on[0]]})", found=got)
            seen.add(on[0])
    missing = sorted(set(want) | {"none", "other"} - seen) if False else sorted((set(want) | {"none", "other"}) - seen)
    if missing:
        chk.bad(rule, "type_hint/classes", ATTR, fi.line, "a documented type-hint form is no longer recognised", found=missing)


def import_parse_contracts(chk, rule, levels=("type", "member", "nested-parent")):
    """Other properties take `applicable_to[kind]` / `fallible` of a parsed instruction as given; the contract of the name tables
    (name -> kinds, fallibility) is imported here as a rule of the importing property."""
    from ..core import Check
    sub = Check("C12", chk.repo, chk.tier)
    sub.guard("R1", lambda: r1(sub))
    chk.rule(rule, "contract of the instruction-name tables this property's lookups rely on (name -> applicable kinds and fallibility, shortcut = OR of basics)", floor=20)
    for r_, why in sub.inconclusive:
        chk.inconc(rule, why)
    for i in sub.instances:
        if i.rule != "R1" or not any(i.key.startswith(lv + "[") for lv in levels):
            continue
        if i.ok:
            chk.ok(rule, "names:" + i.key, i.file, i.line)
        else:
            chk.bad(rule, "names:" + i.key, i.file, i.line, i.what, i.expected, i.found)
    type_hint_contract(chk, rule)


def r5(chk, rule="R5"):
    # a written-out pair (ghost_owned + ghost_ref, from + into, ...) is SEVERAL entries of one per-kind vector where the shortcut is one:
    # the "at most one default" / "already defined" uniqueness classes may only be switched on (instr_name = Some) for vectors whose
    # element type has no applicable_to table (one entry per counterpart by construction: parent, literal, pattern, type_hint)
    from ..src import calls, render
    from ..tables import ATTR, VALIDATE
    chk.rule(rule, "uniqueness diagnostics (one default / one dedicated per counterpart) are applied exactly to the single-entry instruction vectors, never to per-kind vectors (attrs, ghost_attrs) where a written-out pair is legal", floor=5)
    repo = chk.repo
    ma = repo.struct(ATTR, "MemberAttrs")
    elem = {}
    for f_ in ma["fields"]["fields"]:
        m = re.fullmatch(r"Vec < (\w+) >", f_["ty"])
        if m:
            elem[f_["name"]] = m.group(1)

    def per_kind(ty, depth=0):
        try:
            st = repo.struct(ATTR, ty)
        except Inconclusive:
            return None
        fs = st["fields"].get("fields") or []
        if any(f_["name"] == "applicable_to" for f_ in fs):
            return True
        if depth < 2:
            for f_ in fs:
                if f_["name"] in ("attr", "core") and re.fullmatch(r"\w+", f_["ty"]):
                    if per_kind(f_["ty"], depth + 1):
                        return True
        return False
    n = 0
    for fi in repo.fns(VALIDATE):
        for c in calls(fi.body, "validate_dedicated_member_attrs"):
            if len(c["args"]) < 3:
                continue
            a0 = render(c["args"][0]).replace(" ", "")
            m = re.fullmatch(r"&?(?:\w+\.)*(\w+)", a0)
            name_arg = render(c["args"][2]).replace(" ", "")
            if not m or m.group(1) not in elem:
                chk.inconc(rule, f"{fi.qual}: vector argument `{a0[:40]}` of validate_dedicated_member_attrs is not a MemberAttrs field")
                continue
            vec = m.group(1)
            pk = per_kind(elem[vec])
            if pk is None or not (name_arg == "None" or name_arg.startswith("Some(")):
                chk.inconc(rule, f"{fi.qual}: uniqueness switch `{name_arg[:30]}` / element type {elem[vec]} not decidable")
                continue
            n += 1
            on = name_arg.startswith("Some(")
            key = f"uniqueness[{vec}]"
            if on and pk:
                chk.bad(rule, key, VALIDATE, c["line"], "uniqueness diagnostics switched on for a per-kind instruction vector: a legal written-out pair of basic instructions (e.g. ghost_owned + ghost_ref) is rejected where its shortcut is accepted",
                        expected="None", found=name_arg)
            elif not on and not pk:
                chk.bad(rule, key, VALIDATE, c["line"], "uniqueness diagnostics switched off for a single-entry instruction vector (documented misuse 'at most one default' / 'already defined' no longer reported)",
                        expected="Some(<name>)", found=name_arg)
            else:
                chk.ok(rule, key, VALIDATE, c["line"])
    if n < 5:
        chk.inconc(rule, f"only {n} call sites of validate_dedicated_member_attrs decided (6 confirmed by hand)")


def run(chk):
    # a shortcut yields one entry, its written-out basics several: both give the same conversions only if the lookups pick, among
    # several entries of one member, the first that is dedicated AND applicable to the kind (contract decided in C05.R3)
    from .c05 import import_lookup_contracts
    chk.guard("R4", lambda: import_lookup_contracts(chk, "R4", ["ghost", "ghosts_attr", "field_attr", "field_attr_core"], with_chain=True,
                                                    desc="lookups resolve a written-out pair (several entries) like the single shortcut entry: first dedicated-and-applicable, else first applicable default"))
    chk.guard("R1", lambda: r1(chk))
    chk.guard("R1", lambda: type_hint_contract(chk, "R1"))
    chk.guard("R2", lambda: r2(chk))
    chk.guard("R3", lambda: r3(chk))
    chk.guard("R5", lambda: r5(chk))
