#!/bin/bash
# maintenance helper: like reseed_own.sh but on patched scratch copies (O2O_REPO), in parallel; /repo is not touched.  usage: tools/reseed_own_par.sh [jobs]
cd /verif
one() {
  d=$1; id=$(basename $d); prop=$(python3 -c "import json;print(json.load(open('$d/meta.json'))['breaks_property'])")
  T=$(mktemp -d /tmp/o2o-copy-XXXXXX)
  (cd /repo && tar cf - --exclude=target --exclude=.git . ) | (cd $T && tar xf -)
  if ! (cd $T && patch -s -p1 < /verif/$d/patch.diff >/dev/null 2>&1); then echo "$id PATCH DOES NOT APPLY"; rm -rf $T; return; fi
  O2O_REPO=$T O2O_SCRATCH_EVIDENCE=1 ./check $prop >/dev/null 2>&1; c=$?
  rm -rf $T
  echo "$id breaks=$prop own-check-exit=$c"
}
export -f one
ls -d seeded/*/ | xargs -P ${1:-6} -I{} bash -c 'one {}'
