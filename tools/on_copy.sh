#!/bin/bash
# maintenance helper: run checks against a scratch copy of /repo with one patch applied (seeded/<id> or benign/<id>); /repo untouched
# usage: tools/on_copy.sh <dir-with-patch.diff> <CHECK>...
cd /verif
d=$1; shift
T=$(mktemp -d /tmp/o2o-copy-XXXXXX)
(cd /repo && tar cf - --exclude=target --exclude=.git . ) | (cd $T && tar xf -)
(cd $T && patch -s -p1 < /verif/$d/patch.diff) || { echo "PATCH DOES NOT APPLY"; rm -rf $T; exit 1; }
for c in "$@"; do O2O_REPO=$T O2O_SCRATCH_EVIDENCE=1 ./check $c 2>&1 | grep -E "rule=|^INCONC|^C[0-9]+:" | cut -c1-300 | head -6; done
rm -rf $T
