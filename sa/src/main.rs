//! astdump: front-end of the o2o static analyser.
//! Parses Rust source files with syn 2 (full) and dumps a JSON syntax tree that the
//! Python rule engine (/verif/o2ov) consumes. Nothing from the analysed repository is
//! compiled or executed: this is a parser + serializer.
//!
//! usage: astdump <file.rs>...   -> JSON object {path: file-ast} on stdout

use proc_macro2::{Delimiter, Spacing, TokenStream, TokenTree};
use quote::ToTokens;
use serde_json::{json, Map, Value};
use syn::parse::Parser;
use syn::punctuated::Punctuated;
use syn::spanned::Spanned;
use syn::*;

fn ts(t: impl ToTokens) -> String {
    t.to_token_stream().to_string()
}

fn pos(sp: proc_macro2::Span) -> (usize, usize) {
    let s = sp.start();
    (s.line, s.column)
}

fn node(k: &str, sp: proc_macro2::Span) -> Map<String, Value> {
    let mut m = Map::new();
    let (l, c) = pos(sp);
    m.insert("k".into(), json!(k));
    m.insert("line".into(), json!(l));
    m.insert("col".into(), json!(c));
    let e = sp.end();
    m.insert("eline".into(), json!(e.line));
    m
}

fn tokens(stream: TokenStream) -> Value {
    let mut out = vec![];
    for tt in stream {
        let (l, c) = pos(tt.span());
        match tt {
            TokenTree::Group(g) => {
                let d = match g.delimiter() {
                    Delimiter::Parenthesis => "(",
                    Delimiter::Brace => "{",
                    Delimiter::Bracket => "[",
                    Delimiter::None => "",
                };
                out.push(json!({"t":"group","d":d,"ts":tokens(g.stream()),"line":l,"col":c}));
            }
            TokenTree::Ident(i) => out.push(json!({"t":"ident","v":i.to_string(),"line":l,"col":c})),
            TokenTree::Punct(p) => out.push(json!({"t":"punct","v":p.as_char().to_string(),"joint":p.spacing()==Spacing::Joint,"line":l,"col":c})),
            TokenTree::Literal(lit) => out.push(json!({"t":"lit","v":lit.to_string(),"line":l,"col":c})),
        }
    }
    Value::Array(out)
}

fn attrs(a: &[Attribute]) -> Value {
    Value::Array(
        a.iter()
            .map(|x| {
                let (p, t) = match &x.meta {
                    Meta::Path(p) => (ts(p), String::new()),
                    Meta::List(l) => (ts(&l.path), l.tokens.to_string()),
                    Meta::NameValue(nv) => (ts(&nv.path), ts(&nv.value)),
                };
                let inner = matches!(x.style, AttrStyle::Inner(_));
                json!({"path": p.replace(' ', ""), "tokens": t, "inner": inner, "line": pos(x.span()).0})
            })
            .collect(),
    )
}

fn path_str(p: &Path) -> String {
    ts(p).replace(' ', "")
}

fn lit(l: &Lit) -> Value {
    match l {
        Lit::Str(s) => json!({"lk":"str","v":s.value()}),
        Lit::Int(i) => json!({"lk":"int","v":i.base10_digits(),"suffix":i.suffix()}),
        Lit::Bool(b) => json!({"lk":"bool","v":b.value}),
        Lit::Char(c) => json!({"lk":"char","v":c.value().to_string()}),
        other => json!({"lk":"other","v":ts(other)}),
    }
}

fn member(m: &Member) -> Value {
    match m {
        Member::Named(i) => json!(i.to_string()),
        Member::Unnamed(i) => json!(i.index.to_string()),
    }
}

fn pat(p: &Pat) -> Value {
    let mut m = node("?", p.span());
    match p {
        Pat::Wild(_) => {
            m.insert("k".into(), json!("PWild"));
        }
        Pat::Ident(i) => {
            m.insert("k".into(), json!("PIdent"));
            m.insert("name".into(), json!(i.ident.to_string()));
            m.insert("by_ref".into(), json!(i.by_ref.is_some()));
            m.insert("mut".into(), json!(i.mutability.is_some()));
            if let Some((_, sp)) = &i.subpat {
                m.insert("sub".into(), pat(sp));
            }
        }
        Pat::Path(pp) => {
            m.insert("k".into(), json!("PPath"));
            m.insert("path".into(), json!(path_str(&pp.path)));
        }
        Pat::TupleStruct(t) => {
            m.insert("k".into(), json!("PTupleStruct"));
            m.insert("path".into(), json!(path_str(&t.path)));
            m.insert("elems".into(), Value::Array(t.elems.iter().map(pat).collect()));
        }
        Pat::Struct(s) => {
            m.insert("k".into(), json!("PStruct"));
            m.insert("path".into(), json!(path_str(&s.path)));
            m.insert(
                "fields".into(),
                Value::Array(s.fields.iter().map(|f| json!({"member": member(&f.member), "pat": pat(&f.pat)})).collect()),
            );
            m.insert("rest".into(), json!(s.rest.is_some()));
        }
        Pat::Tuple(t) => {
            m.insert("k".into(), json!("PTuple"));
            m.insert("elems".into(), Value::Array(t.elems.iter().map(pat).collect()));
        }
        Pat::Or(o) => {
            m.insert("k".into(), json!("POr"));
            m.insert("cases".into(), Value::Array(o.cases.iter().map(pat).collect()));
        }
        Pat::Lit(l) => {
            m.insert("k".into(), json!("PLit"));
            m.insert("lit".into(), lit(&l.lit));
        }
        Pat::Reference(r) => {
            m.insert("k".into(), json!("PRef"));
            m.insert("pat".into(), pat(&r.pat));
        }
        Pat::Rest(_) => {
            m.insert("k".into(), json!("PRest"));
        }
        Pat::Paren(pp) => return pat(&pp.pat),
        Pat::Type(t) => {
            m.insert("k".into(), json!("PType"));
            m.insert("pat".into(), pat(&t.pat));
            m.insert("ty".into(), json!(ts(&t.ty)));
        }
        Pat::Slice(s) => {
            m.insert("k".into(), json!("PSlice"));
            m.insert("elems".into(), Value::Array(s.elems.iter().map(pat).collect()));
        }
        other => {
            m.insert("k".into(), json!("POther"));
            m.insert("src".into(), json!(ts(other)));
        }
    }
    Value::Object(m)
}

fn block(b: &Block) -> Value {
    let mut m = node("Block", b.span());
    m.insert("stmts".into(), Value::Array(b.stmts.iter().map(stmt).collect()));
    Value::Object(m)
}

fn stmt(s: &Stmt) -> Value {
    match s {
        Stmt::Local(l) => {
            let mut m = node("Let", l.span());
            m.insert("attrs".into(), attrs(&l.attrs));
            m.insert("pat".into(), pat(&l.pat));
            if let Some(init) = &l.init {
                m.insert("init".into(), expr(&init.expr));
                if let Some((_, e)) = &init.diverge {
                    m.insert("else".into(), expr(e));
                }
            }
            Value::Object(m)
        }
        Stmt::Item(i) => {
            let mut m = node("ItemStmt", i.span());
            m.insert("item".into(), item(i));
            Value::Object(m)
        }
        Stmt::Expr(e, semi) => {
            let mut m = node("ExprStmt", e.span());
            m.insert("expr".into(), expr(e));
            m.insert("semi".into(), json!(semi.is_some()));
            Value::Object(m)
        }
        Stmt::Macro(mac) => {
            let mut m = node("ExprStmt", mac.span());
            m.insert("expr".into(), macro_node(&mac.mac, &mac.attrs));
            m.insert("semi".into(), json!(mac.semi_token.is_some()));
            Value::Object(m)
        }
    }
}

fn macro_node(mac: &Macro, a: &[Attribute]) -> Value {
    let mut m = node("Macro", mac.span());
    let name = path_str(&mac.path);
    m.insert("attrs".into(), attrs(a));
    m.insert("name".into(), json!(name));
    m.insert("last".into(), json!(mac.path.segments.last().map(|s| s.ident.to_string()).unwrap_or_default()));
    m.insert("tokens".into(), tokens(mac.tokens.clone()));
    m.insert("src".into(), json!(mac.tokens.to_string()));
    let last = mac.path.segments.last().map(|s| s.ident.to_string()).unwrap_or_default();
    let quote_family = matches!(last.as_str(), "quote" | "parse_quote" | "quote_spanned");
    if !quote_family {
        if last == "matches" {
            // matches!(expr, pat [if guard])
            let parser = |input: parse::ParseStream| -> Result<(Expr, Pat, Option<Expr>)> {
                let e: Expr = input.parse()?;
                input.parse::<Token![,]>()?;
                let p = Pat::parse_multi_with_leading_vert(input)?;
                let g = if input.peek(Token![if]) {
                    input.parse::<Token![if]>()?;
                    Some(input.parse::<Expr>()?)
                } else {
                    None
                };
                let _ = input.parse::<Option<Token![,]>>()?;
                Ok((e, p, g))
            };
            if let Ok((e, p, g)) = parser.parse2(mac.tokens.clone()) {
                m.insert("args".into(), Value::Array(vec![expr(&e)]));
                m.insert("pat".into(), pat(&p));
                if let Some(g) = g {
                    m.insert("guard".into(), expr(&g));
                }
            }
        } else if let Ok(args) = Punctuated::<Expr, Token![,]>::parse_terminated.parse2(mac.tokens.clone()) {
            m.insert("args".into(), Value::Array(args.iter().map(expr).collect()));
        }
    }
    Value::Object(m)
}

fn expr_attrs(e: &Expr) -> &[Attribute] {
    match e {
        Expr::Array(x) => &x.attrs, Expr::Assign(x) => &x.attrs, Expr::Async(x) => &x.attrs, Expr::Await(x) => &x.attrs,
        Expr::Binary(x) => &x.attrs, Expr::Block(x) => &x.attrs, Expr::Break(x) => &x.attrs, Expr::Call(x) => &x.attrs,
        Expr::Cast(x) => &x.attrs, Expr::Closure(x) => &x.attrs, Expr::Const(x) => &x.attrs, Expr::Continue(x) => &x.attrs,
        Expr::Field(x) => &x.attrs, Expr::ForLoop(x) => &x.attrs, Expr::Group(x) => &x.attrs, Expr::If(x) => &x.attrs,
        Expr::Index(x) => &x.attrs, Expr::Infer(x) => &x.attrs, Expr::Let(x) => &x.attrs, Expr::Lit(x) => &x.attrs,
        Expr::Loop(x) => &x.attrs, Expr::Macro(x) => &x.attrs, Expr::Match(x) => &x.attrs, Expr::MethodCall(x) => &x.attrs,
        Expr::Paren(x) => &x.attrs, Expr::Path(x) => &x.attrs, Expr::Range(x) => &x.attrs, Expr::Reference(x) => &x.attrs,
        Expr::Repeat(x) => &x.attrs, Expr::Return(x) => &x.attrs, Expr::Struct(x) => &x.attrs, Expr::Try(x) => &x.attrs,
        Expr::TryBlock(x) => &x.attrs, Expr::Tuple(x) => &x.attrs, Expr::Unary(x) => &x.attrs, Expr::Unsafe(x) => &x.attrs,
        Expr::While(x) => &x.attrs, Expr::Yield(x) => &x.attrs,
        _ => &[],
    }
}

fn expr(e: &Expr) -> Value {
    let mut v = expr_inner(e);
    let a = expr_attrs(e);
    if !a.is_empty() {
        if let Value::Object(o) = &mut v {
            if !o.contains_key("attrs") || o["attrs"].as_array().map(|x| x.is_empty()).unwrap_or(true) {
                o.insert("attrs".into(), attrs(a));
            }
        }
    }
    v
}

fn expr_inner(e: &Expr) -> Value {
    let mut m = node("?", e.span());
    macro_rules! k {
        ($n:expr) => {
            m.insert("k".into(), json!($n));
        };
    }
    match e {
        Expr::Path(p) => {
            k!("Path");
            m.insert("path".into(), json!(path_str(&p.path)));
            m.insert(
                "segs".into(),
                Value::Array(p.path.segments.iter().map(|s| json!(s.ident.to_string())).collect()),
            );
        }
        Expr::Lit(l) => {
            k!("Lit");
            m.insert("lit".into(), lit(&l.lit));
        }
        Expr::Field(f) => {
            k!("Field");
            m.insert("base".into(), expr(&f.base));
            m.insert("member".into(), member(&f.member));
        }
        Expr::MethodCall(c) => {
            k!("MethodCall");
            m.insert("recv".into(), expr(&c.receiver));
            m.insert("method".into(), json!(c.method.to_string()));
            m.insert("mline".into(), json!(pos(c.method.span()).0));
            if let Some(t) = &c.turbofish {
                m.insert("turbofish".into(), json!(ts(t)));
            }
            m.insert("args".into(), Value::Array(c.args.iter().map(expr).collect()));
        }
        Expr::Call(c) => {
            k!("Call");
            m.insert("func".into(), expr(&c.func));
            m.insert("args".into(), Value::Array(c.args.iter().map(expr).collect()));
        }
        Expr::Macro(mac) => return macro_node(&mac.mac, &mac.attrs),
        Expr::Closure(c) => {
            k!("Closure");
            m.insert("params".into(), Value::Array(c.inputs.iter().map(pat).collect()));
            m.insert("body".into(), expr(&c.body));
            m.insert("move".into(), json!(c.capture.is_some()));
        }
        Expr::If(i) => {
            k!("If");
            m.insert("cond".into(), expr(&i.cond));
            m.insert("then".into(), block(&i.then_branch));
            if let Some((_, e)) = &i.else_branch {
                m.insert("else".into(), expr(e));
            }
        }
        Expr::Let(l) => {
            k!("LetExpr");
            m.insert("pat".into(), pat(&l.pat));
            m.insert("expr".into(), expr(&l.expr));
        }
        Expr::Match(mm) => {
            k!("Match");
            m.insert("scrut".into(), expr(&mm.expr));
            m.insert(
                "arms".into(),
                Value::Array(
                    mm.arms
                        .iter()
                        .map(|a| {
                            let mut am = node("Arm", a.span());
                            am.insert("attrs".into(), attrs(&a.attrs));
                            am.insert("pat".into(), pat(&a.pat));
                            if let Some((_, g)) = &a.guard {
                                am.insert("guard".into(), expr(g));
                            }
                            am.insert("body".into(), expr(&a.body));
                            Value::Object(am)
                        })
                        .collect(),
                ),
            );
        }
        Expr::Block(b) => {
            let mut v = block(&b.block);
            if let Value::Object(o) = &mut v {
                o.insert("attrs".into(), attrs(&b.attrs));
            }
            return v;
        }
        Expr::Unsafe(b) => {
            k!("Unsafe");
            m.insert("body".into(), block(&b.block));
        }
        Expr::Unary(u) => {
            k!("Unary");
            m.insert("op".into(), json!(ts(&u.op)));
            m.insert("expr".into(), expr(&u.expr));
        }
        Expr::Binary(b) => {
            k!("Binary");
            m.insert("op".into(), json!(ts(&b.op)));
            m.insert("l".into(), expr(&b.left));
            m.insert("r".into(), expr(&b.right));
        }
        Expr::Reference(r) => {
            k!("Ref");
            m.insert("mut".into(), json!(r.mutability.is_some()));
            m.insert("expr".into(), expr(&r.expr));
        }
        Expr::Tuple(t) => {
            k!("Tuple");
            m.insert("elems".into(), Value::Array(t.elems.iter().map(expr).collect()));
        }
        Expr::Array(t) => {
            k!("Array");
            m.insert("elems".into(), Value::Array(t.elems.iter().map(expr).collect()));
        }
        Expr::Repeat(r) => {
            k!("Repeat");
            m.insert("expr".into(), expr(&r.expr));
            m.insert("len".into(), expr(&r.len));
        }
        Expr::Struct(s) => {
            k!("Struct");
            m.insert("path".into(), json!(path_str(&s.path)));
            m.insert(
                "fields".into(),
                Value::Array(
                    s.fields
                        .iter()
                        .map(|f| json!({"member": member(&f.member), "expr": expr(&f.expr), "line": pos(f.span()).0}))
                        .collect(),
                ),
            );
            if let Some(r) = &s.rest {
                m.insert("rest".into(), expr(r));
            }
            m.insert("dotdot".into(), json!(s.dot2_token.is_some()));
        }
        Expr::Index(i) => {
            k!("Index");
            m.insert("expr".into(), expr(&i.expr));
            m.insert("index".into(), expr(&i.index));
        }
        Expr::Cast(c) => {
            k!("Cast");
            m.insert("expr".into(), expr(&c.expr));
            m.insert("ty".into(), json!(ts(&c.ty)));
        }
        Expr::Return(r) => {
            k!("Return");
            if let Some(e) = &r.expr {
                m.insert("expr".into(), expr(e));
            }
        }
        Expr::Break(b) => {
            k!("Break");
            if let Some(e) = &b.expr {
                m.insert("expr".into(), expr(e));
            }
        }
        Expr::Continue(_) => {
            k!("Continue");
        }
        Expr::While(w) => {
            k!("While");
            m.insert("cond".into(), expr(&w.cond));
            m.insert("body".into(), block(&w.body));
        }
        Expr::Loop(w) => {
            k!("Loop");
            m.insert("body".into(), block(&w.body));
        }
        Expr::ForLoop(f) => {
            k!("For");
            m.insert("pat".into(), pat(&f.pat));
            m.insert("iter".into(), expr(&f.expr));
            m.insert("body".into(), block(&f.body));
        }
        Expr::Assign(a) => {
            k!("Assign");
            m.insert("l".into(), expr(&a.left));
            m.insert("r".into(), expr(&a.right));
        }
        Expr::Paren(p) => return expr(&p.expr),
        Expr::Group(p) => return expr(&p.expr),
        Expr::Try(t) => {
            k!("Try");
            m.insert("expr".into(), expr(&t.expr));
        }
        Expr::Range(r) => {
            k!("Range");
            if let Some(s) = &r.start {
                m.insert("start".into(), expr(s));
            }
            if let Some(s) = &r.end {
                m.insert("end".into(), expr(s));
            }
            m.insert("limits".into(), json!(ts(&r.limits)));
        }
        Expr::Await(a) => {
            k!("Await");
            m.insert("expr".into(), expr(&a.base));
        }
        other => {
            k!("Other");
            m.insert("src".into(), json!(ts(other)));
        }
    }
    Value::Object(m)
}

fn sig(s: &Signature) -> Value {
    let inputs: Vec<Value> = s
        .inputs
        .iter()
        .map(|a| match a {
            FnArg::Receiver(r) => json!({"self": true, "ref": r.reference.is_some(), "mut": r.mutability.is_some(), "ty": ts(&r.ty)}),
            FnArg::Typed(t) => json!({"pat": pat(&t.pat), "ty": ts(&t.ty)}),
        })
        .collect();
    let out = match &s.output {
        ReturnType::Default => String::new(),
        ReturnType::Type(_, t) => ts(t),
    };
    json!({"name": s.ident.to_string(), "inputs": inputs, "output": out, "generics": ts(&s.generics), "where": s.generics.where_clause.as_ref().map(ts)})
}

fn vis(v: &Visibility) -> String {
    match v {
        Visibility::Inherited => "".into(),
        other => ts(other).replace(' ', ""),
    }
}

fn fields(f: &Fields) -> Value {
    let kind = match f {
        Fields::Named(_) => "named",
        Fields::Unnamed(_) => "tuple",
        Fields::Unit => "unit",
    };
    json!({"kind": kind, "fields": f.iter().enumerate().map(|(i, x)| json!({
        "name": x.ident.as_ref().map(|i| i.to_string()).unwrap_or_else(|| i.to_string()),
        "ty": ts(&x.ty), "vis": vis(&x.vis), "attrs": attrs(&x.attrs), "line": pos(x.span()).0})).collect::<Vec<_>>()})
}

fn item(i: &Item) -> Value {
    let mut m = node("?", i.span());
    macro_rules! k {
        ($n:expr) => {
            m.insert("k".into(), json!($n));
        };
    }
    match i {
        Item::Fn(f) => {
            k!("Fn");
            m.insert("attrs".into(), attrs(&f.attrs));
            m.insert("vis".into(), json!(vis(&f.vis)));
            m.insert("name".into(), json!(f.sig.ident.to_string()));
            m.insert("sig".into(), sig(&f.sig));
            m.insert("body".into(), block(&f.block));
        }
        Item::Impl(im) => {
            k!("Impl");
            m.insert("attrs".into(), attrs(&im.attrs));
            m.insert("self_ty".into(), json!(ts(&im.self_ty)));
            m.insert("generics".into(), json!(ts(&im.generics)));
            m.insert("where".into(), json!(im.generics.where_clause.as_ref().map(ts)));
            m.insert("unsafe".into(), json!(im.unsafety.is_some()));
            if let Some((_, p, _)) = &im.trait_ {
                m.insert("trait".into(), json!(ts(p)));
            }
            let mut items = vec![];
            for it in &im.items {
                match it {
                    ImplItem::Fn(f) => {
                        let mut fm = node("Fn", f.span());
                        fm.insert("attrs".into(), attrs(&f.attrs));
                        fm.insert("vis".into(), json!(vis(&f.vis)));
                        fm.insert("name".into(), json!(f.sig.ident.to_string()));
                        fm.insert("sig".into(), sig(&f.sig));
                        fm.insert("sig_src".into(), json!(ts(&f.sig)));
                        fm.insert("body".into(), block(&f.block));
                        items.push(Value::Object(fm));
                    }
                    ImplItem::Type(t) => {
                        let mut tm = node("AssocType", t.span());
                        tm.insert("name".into(), json!(t.ident.to_string()));
                        tm.insert("ty".into(), json!(ts(&t.ty)));
                        items.push(Value::Object(tm));
                    }
                    other => {
                        let mut om = node("Other", other.span());
                        om.insert("src".into(), json!(ts(other)));
                        items.push(Value::Object(om));
                    }
                }
            }
            m.insert("items".into(), Value::Array(items));
        }
        Item::Enum(e) => {
            k!("Enum");
            m.insert("attrs".into(), attrs(&e.attrs));
            m.insert("name".into(), json!(e.ident.to_string()));
            m.insert("vis".into(), json!(vis(&e.vis)));
            m.insert(
                "variants".into(),
                Value::Array(
                    e.variants
                        .iter()
                        .map(|v| json!({"name": v.ident.to_string(), "fields": fields(&v.fields), "attrs": attrs(&v.attrs),
                            "disc": v.discriminant.as_ref().map(|d| ts(&d.1)), "line": pos(v.span()).0}))
                        .collect(),
                ),
            );
        }
        Item::Struct(s) => {
            k!("Struct");
            m.insert("attrs".into(), attrs(&s.attrs));
            m.insert("name".into(), json!(s.ident.to_string()));
            m.insert("vis".into(), json!(vis(&s.vis)));
            m.insert("generics".into(), json!(ts(&s.generics)));
            m.insert("fields".into(), fields(&s.fields));
        }
        Item::Const(c) => {
            k!("Const");
            m.insert("attrs".into(), attrs(&c.attrs));
            m.insert("name".into(), json!(c.ident.to_string()));
            m.insert("ty".into(), json!(ts(&c.ty)));
            m.insert("expr".into(), expr(&c.expr));
        }
        Item::Static(c) => {
            k!("Static");
            m.insert("attrs".into(), attrs(&c.attrs));
            m.insert("name".into(), json!(c.ident.to_string()));
            m.insert("ty".into(), json!(ts(&c.ty)));
            m.insert("mut".into(), json!(matches!(c.mutability, StaticMutability::Mut(_))));
            m.insert("expr".into(), expr(&c.expr));
        }
        Item::Use(u) => {
            k!("Use");
            m.insert("attrs".into(), attrs(&u.attrs));
            m.insert("tree".into(), json!(ts(&u.tree).replace(' ', "")));
            m.insert("vis".into(), json!(vis(&u.vis)));
        }
        Item::Mod(md) => {
            k!("Mod");
            m.insert("attrs".into(), attrs(&md.attrs));
            m.insert("name".into(), json!(md.ident.to_string()));
            m.insert("vis".into(), json!(vis(&md.vis)));
            if let Some((_, its)) = &md.content {
                m.insert("items".into(), Value::Array(its.iter().map(item).collect()));
            }
        }
        Item::Type(t) => {
            k!("TypeAlias");
            m.insert("attrs".into(), attrs(&t.attrs));
            m.insert("name".into(), json!(t.ident.to_string()));
            m.insert("ty".into(), json!(ts(&t.ty)));
        }
        Item::Macro(mac) => {
            k!("ItemMacro");
            m.insert("attrs".into(), attrs(&mac.attrs));
            m.insert("mac".into(), macro_node(&mac.mac, &[]));
        }
        Item::Trait(t) => {
            k!("Trait");
            m.insert("attrs".into(), attrs(&t.attrs));
            m.insert("name".into(), json!(t.ident.to_string()));
            m.insert("generics".into(), json!(ts(&t.generics)));
            let mut items = vec![];
            for it in &t.items {
                match it {
                    TraitItem::Fn(f) => {
                        let mut fm = node("Fn", f.span());
                        fm.insert("name".into(), json!(f.sig.ident.to_string()));
                        fm.insert("sig".into(), sig(&f.sig));
                        fm.insert("sig_src".into(), json!(ts(&f.sig)));
                        if let Some(b) = &f.default {
                            fm.insert("body".into(), block(b));
                        }
                        items.push(Value::Object(fm));
                    }
                    TraitItem::Type(ty) => {
                        let mut tm = node("AssocType", ty.span());
                        tm.insert("name".into(), json!(ty.ident.to_string()));
                        items.push(Value::Object(tm));
                    }
                    other => {
                        let mut om = node("Other", other.span());
                        om.insert("src".into(), json!(ts(other)));
                        items.push(Value::Object(om));
                    }
                }
            }
            m.insert("items".into(), Value::Array(items));
        }
        Item::ExternCrate(e) => {
            k!("ExternCrate");
            m.insert("name".into(), json!(e.ident.to_string()));
        }
        other => {
            k!("OtherItem");
            m.insert("src".into(), json!(ts(other)));
        }
    }
    Value::Object(m)
}

fn parse_snippets() {
    // stdin: JSON array of {"as": "file"|"expr"|"pat"|"type"|"stmts", "src": "..."}; stdout: JSON array of results
    let mut inp = String::new();
    std::io::Read::read_to_string(&mut std::io::stdin(), &mut inp).unwrap();
    let reqs: Vec<Value> = serde_json::from_str(&inp).unwrap();
    let mut out = vec![];
    for r in reqs {
        let src = r["src"].as_str().unwrap_or("");
        let res = match r["as"].as_str().unwrap_or("file") {
            "file" => match syn::parse_str::<File>(src) {
                Ok(f) => json!({"ok": true, "items": f.items.iter().map(item).collect::<Vec<_>>()}),
                Err(e) => json!({"ok": false, "error": e.to_string()}),
            },
            "expr" => match syn::parse_str::<Expr>(src) {
                Ok(e) => json!({"ok": true, "expr": expr(&e)}),
                Err(e) => json!({"ok": false, "error": e.to_string()}),
            },
            "stmts" => match Block::parse_within.parse_str(src) {
                Ok(b) => json!({"ok": true, "stmts": b.iter().map(stmt).collect::<Vec<_>>()}),
                Err(e) => json!({"ok": false, "error": e.to_string()}),
            },
            "pat" => match Pat::parse_multi_with_leading_vert.parse_str(src) {
                Ok(p) => json!({"ok": true, "pat": pat(&p)}),
                Err(e) => json!({"ok": false, "error": e.to_string()}),
            },
            "type" => match syn::parse_str::<Type>(src) {
                Ok(t) => json!({"ok": true, "type": ts(&t)}),
                Err(e) => json!({"ok": false, "error": e.to_string()}),
            },
            other => json!({"ok": false, "error": format!("unknown kind {other}")}),
        };
        out.push(res);
    }
    println!("{}", serde_json::to_string(&Value::Array(out)).unwrap());
}

fn main() {
    if std::env::args().nth(1).as_deref() == Some("--parse") {
        parse_snippets();
        return;
    }
    let mut out = Map::new();
    for path in std::env::args().skip(1) {
        let src = match std::fs::read_to_string(&path) {
            Ok(s) => s,
            Err(e) => {
                out.insert(path.clone(), json!({"error": format!("read: {e}")}));
                continue;
            }
        };
        match syn::parse_file(&src) {
            Ok(f) => {
                out.insert(
                    path.clone(),
                    json!({"attrs": attrs(&f.attrs), "items": f.items.iter().map(item).collect::<Vec<_>>(), "lines": src.lines().count()}),
                );
            }
            Err(e) => {
                out.insert(path.clone(), json!({"error": format!("parse: {e} at line {}", e.span().start().line)}));
            }
        }
    }
    println!("{}", serde_json::to_string(&Value::Object(out)).unwrap());
}
