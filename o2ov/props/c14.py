"""C14 — repeat / skip_repeat / stop_repeat equal writing the instructions out."""
import re

from ..pe import Clos, Evaluator, ListV, StructV, SymObj, Tag, TupleV, explore, vkey
from ..src import Inconclusive, calls, method_calls, render, walk
from ..tables import AST, ATTR, IMPL_FILES, instr_table, kind_slots, trait_attr_of, TRAIT_NAMES

LEVEL = "other"
EXPLANATION = (
    "The repeat state machine is a per-member transition function; it is partially evaluated for one member over its complete discriminant space "
    "(stop_repeat x repeat present x a block is open) in each of the three sibling implementations (fields, variants, trait instructions) and compared "
    "with the protocol: a stop resets BEFORE anything else; a new repeat opens a block (conflict if one is still open) and never merges; otherwise an open "
    "block is merged in. R2: the category tables: name list <-> slot map <-> which vector/parameter each branch of merge copies (self.X <- other.X for the "
    "same X), for member-level (5 categories) and trait-level (4) repeats, with the duplicate-parameter conflict guarded on the same field. R3: skip_repeat is "
    "tested first in both merges. R4: the non-permeating reset happens after a variant's own fields; struct fields start from a fresh context. R5: the "
    "trait-level repeat key (applicable_to, fallible) identifies the instruction name (injective over the 24 names).")
NOT_DECIDED = ["equivalence with the written-out form for all placements (an inductive claim over member sequences; only the one-step transition table is decided)"]


def protocol_region(repo, fi):
    """The per-member step of the repeat protocol: the closure of `.iter().enumerate().map(|(i, m)| ..)`, or the body of a
    `for (i, m) in ...` loop; in both cases helper methods it calls are evaluated in place. Returns (kind, node, iteration-source)."""
    def mentions(n):
        txt = render(n)
        if "stop_repeat" in txt:
            return True
        # the step may have been moved into a helper method called from the region
        names = {c["func"]["segs"][-1] for c in calls(n)} | {m_["method"] for m_ in method_calls(n)}
        return any("stop_repeat" in render(f.body) for f in repo.fns(fi.file) if f.name in names and f.name != fi.name)
    ms = [m for m in method_calls(fi.body, "map") if m["args"] and m["args"][0]["k"] == "Closure" and mentions(m["args"][0])]
    fs = [n for n in walk(fi.body) if n["k"] == "For" and mentions(n["body"])]
    if len(ms) == 1 and not fs:
        return "closure", ms[0], render(ms[0]["recv"]).replace(" ", "")
    if len(fs) == 1 and not ms:
        return "for", fs[0], render(fs[0]["iter"]).replace(" ", "")
    raise Inconclusive(f"{fi.qual}: expected one .map(closure) or one for-loop carrying the repeat protocol")


def transition_table(repo, fi, member_name, ctx_field, opaque):
    from ..pe import ContinueEx, ReturnEx
    kind_, m, src = protocol_region(repo, fi)

    def mk():
        return Evaluator(repo, IMPL_FILES, opaque=opaque)

    def run(ev):
        env = ev.sym_params(fi)
        if "ctx" not in env:
            env["ctx"] = SymObj("ctx", ("named", "Context"))
        # locals defined before the region (e.g. `let mut ctx = Context::default();`)
        for st in fi.body["stmts"]:
            if st["line"] >= m["line"]:
                break
            if st["k"] == "Let" and st.get("init") is not None:
                p = st["pat"]
                while p["k"] in ("PType", "PRef"):
                    p = p["pat"]
                if p["k"] == "PIdent" and p["name"] not in env:
                    env[p["name"]] = SymObj(p["name"], ("named", "Context") if p["name"] == "ctx" else ("named", "?"))
        if isinstance(fi.impl, dict):
            ev.impl_stack.append(fi.impl.get("self_ty"))  # so that Self::helper(..) resolves inside the region
        elem = TupleV([SymObj("i", ("int",)), SymObj(member_name, ("named", "?"))])
        if kind_ == "closure":
            cl = m["args"][0]
            c = Clos(cl["params"], cl["body"], env, ev)
            return ev.call_closure(c, [elem])
        env2 = dict(env)
        if not ev.bind(m["pat"], elem, env2):
            ev.bind(m["pat"], SymObj(member_name, ("named", "?")), env2)
        try:
            return ev.eval_block(m["body"], env2)
        except ContinueEx:
            return None
        except ReturnEx as r:
            return r.value
    leaves = explore(mk, run)
    rows = []
    for lf in leaves:
        stop = rep = opened = None
        for a, v in lf.decisions.items():
            if a.endswith(".attrs.stop_repeat"):
                stop = v
            elif a.endswith(".attrs.repeat") or a.endswith(".attrs.repeat.is_some()"):
                rep = (v == "Some") if isinstance(v, str) else v
            elif a == f"ctx.{ctx_field}" or a == f"ctx.{ctx_field}.is_some()":
                opened = (v == "Some") if isinstance(v, str) else v
        acts = []
        for e in lf.effects:
            if e[0] == "assign" and e[1] == f"ctx.{ctx_field}":
                acts.append("reset" if e[2] == "None" else "open")
            elif e[0] == "summary" and ".merge(" in e[1]:
                acts.append("merge")
        if lf.panic or (isinstance(lf.value, Tag) and lf.value.name == "Err"):
            acts.append("conflict")
        if lf.unsupported:
            acts.append("?" + lf.unsupported)
        rows.append((stop, rep, opened, acts, lf))
    return rows, m, src


def expected_actions(stop, rep, opened):
    acts = []
    if stop:
        acts.append("reset")
        opened = False
    if rep:
        if opened:
            return acts + ["conflict"]
        acts.append("open")
    elif opened:
        acts.append("merge")
    return acts


def r1(chk):
    repo = chk.repo
    chk.rule("R1", "one-step repeat protocol: reset on stop first; repeat opens (conflict if still open) and never merges; else merge the open block", floor=18)
    for impl, member, ctx_field in (("Field", "field", "field_attrs_to_repeat"), ("Variant", "variant", "variant_attrs_to_repeat")):
        fi = repo.fn(AST, "multiple_from_syn", impl=impl)
        rows, m, src = transition_table(repo, fi, member, ctx_field, {"merge", "from_syn"})
        chk.expect("R1", f"{impl}::multiple_from_syn/order", bool(re.fullmatch(r"\w+\.iter\(\)\.enumerate\(\)", src)), AST, m["line"], "members are not visited in declaration order", found=src)
        chk.unit("transition_leaves", len(rows))
        for stop in (False, True):
            for rep in (False, True):
                for opened in (False, True):
                    match = [r for r in rows if (r[0] is None or r[0] == stop) and (r[1] is None or r[1] == rep) and (r[2] is None or r[2] == opened)]
                    key = f"{impl}::multiple_from_syn[stop={stop},repeat={rep},open={opened}]"
                    if len(match) != 1:
                        chk.bad("R1", key, AST, m["line"], "transition not uniquely determined by (stop, repeat, open)", found=[(r[0], r[1], r[2], r[3]) for r in match][:4])
                        continue
                    exp = expected_actions(stop, rep, opened)
                    chk.expect("R1", key, match[0][3] == exp, AST, m["line"], "repeat protocol step differs (block boundary off by one / merge despite stop / merge into the opener)",
                               expected=exp, found=match[0][3])
    # trait-level sibling: the Map arm of the instruction loop in get_data_type_attrs
    fi = repo.fn(ATTR, "get_data_type_attrs")
    arms = [a for n in walk(fi.body) if n["k"] == "Match" for a in n["arms"] if "DataTypeInstruction::Map" in render(a["pat"] if False else a["pat"]) or a["pat"].get("path", "").endswith("DataTypeInstruction::Map")]
    arms = [a for n in walk(fi.body) if n["k"] == "Match" for a in n["arms"] if a["pat"]["k"] == "PTupleStruct" and a["pat"]["path"].endswith("DataTypeInstruction::Map")]
    if len(arms) != 1:
        raise Inconclusive("get_data_type_attrs: Map arm of the instruction loop not found")
    arm = arms[0]
    pname = None
    for q in walk(arm["pat"]):
        if q["k"] == "PIdent":
            pname = q["name"]

    # the pending-repeat map: the local of get_data_type_attrs that is initialised as a HashMap (whatever it is called)
    map_names = [st["pat"].get("name") or (st["pat"].get("pat") or {}).get("name") for st in walk(fi.body)
                 if st["k"] == "Let" and "HashMap" in (render(st.get("init")) if st.get("init") else "") + str(st["pat"].get("ty", ""))]
    map_names = [m_ for m_ in map_names if m_] or ["trait_attrs_to_repeat"]

    def mk():
        return Evaluator(repo, IMPL_FILES, opaque={"merge"})

    def run(ev):
        env = {pname: SymObj(pname, ("named", "TraitAttr")), "attrs": SymObj("attrs", ("named", "DataTypeAttrs"))}
        for mname in map_names:
            env[mname] = SymObj("M", ("named", "HashMap"))
        return ev.eval(arm["body"], env)
    leaves = explore(mk, run)
    chk.unit("transition_leaves", len(leaves))
    for lf in leaves:
        d = lf.decisions
        stop = d.get(f"{pname}.core.stop_repeat")
        rep = d.get(f"{pname}.core.repeat")
        rep = (rep == "Some") if isinstance(rep, str) else rep
        got = [a for a in d if a.startswith("M.get_mut(") or a.startswith("M.get(") or a.startswith("M.contains_key(")]
        opened = None
        if got:
            gv = d.get(got[0])
            opened = (gv == "Some") if isinstance(gv, str) else bool(gv)
        effs = lf.effects
        names = []
        for e in effs:
            if e[0] == "M" and e[1] == "remove":
                names.append("reset")
            elif e[0] == "M" and e[1] in ("get_mut", "get", "contains_key", "entry"):
                if not names or names[-1] != "lookup":
                    names.append("lookup")
            elif e[0] == "M" and e[1] == "insert":
                names.append("open")
            elif e[0] == "summary" and ".merge(" in e[1]:
                names.append("merge")
            elif e[0] == "attrs.attrs" and e[1] == "push":
                names.append("push")
        if isinstance(lf.value, Tag) and lf.value.name == "Err" and "merge" not in names:
            names.append("conflict")
        key = f"get_data_type_attrs/Map[stop={stop},repeat={rep},open={opened}]"
        if stop and opened:
            # infeasible: the block was removed before the lookup — but only if remove really precedes the lookup
            ok = "reset" in names and names.index("reset") < names.index("lookup")
            chk.expect("R1", key + "/reset-before-lookup", ok, ATTR, arm["line"], "stop_repeat must clear the open block before it is looked up", found=names)
            continue
        exp = []
        if stop:
            exp.append("reset")
        exp.append("lookup")
        if rep:
            exp += ["conflict"] if opened else ["open", "push"]
        elif opened:
            exp += ["merge", "push"]
        else:
            exp += ["push"]
        chk.expect("R1", key, names == exp, ATTR, arm["line"], "trait-level repeat step differs from the protocol", expected=exp, found=names)


def r2(chk):
    repo = chk.repo
    chk.rule("R2", "category tables: name list <-> slot map <-> merged vector/parameter (self.X <- other.X), conflicts guarded on the same field", floor=9)
    ev = Evaluator(repo, IMPL_FILES)
    # --- member level
    names = [render(x).strip('"') for x in repo.const(ATTR, "MEMBER_REPEAT_TYPES")["expr"]["elems"]]
    fi_idx = ev.index_impls.get("MemberAttrType")
    if fi_idx is None:
        raise Inconclusive("impl Index<&MemberAttrType> not found")
    variants = [v["name"] for v in repo.enum(ATTR, "MemberAttrType")["variants"]]
    slot = {}
    for v in variants:
        ev.decisions = {}
        slot[v] = ev.inline(fi_idx, ListV(list(range(16))), [Tag(v, [], "MemberAttrType")])
    fm = repo.fn(ATTR, "merge", impl="MemberAttrs")

    def mk():
        return Evaluator(repo, IMPL_FILES)
    leaves = explore(mk, lambda e_: e_.run_fn(fm, e_.sym_params(fm)))
    # one-hot leaves tell which vector each slot copies
    copied = {}
    conditional = {}
    for lf in leaves:
        on = [a for a, v in lf.decisions.items() if "repeat_for[" in a and v is True]
        if lf.get("self.skip_repeat") is False and lf.get("other.repeat") == "Some" and len(on) == 1:
            i = int(re.search(r"repeat_for\[(\d+)\]", on[0]).group(1))
            eff_ = [(e[0], e[1], e[2]) for e in lf.effects if e[1] in ("extend", "append", "push") or e[0] == "assign"]
            extra = sorted(a for a in lf.decisions if a not in ("self.skip_repeat", "other.repeat") and "repeat_for[" not in a)
            if i in copied and copied[i] != eff_:
                conditional[i] = extra
            if i not in copied or eff_:
                copied[i] = eff_ if (i not in copied or copied[i]) else copied[i]
            if not eff_:
                conditional.setdefault(i, extra)
    want = {"map": "attrs", "child": "child_attrs", "parent": "parent_attrs", "ghost": "ghost_attrs", "type_hint": "type_hint_attrs"}
    var_of = {"map": "Attr", "child": "Child", "parent": "Parent", "ghost": "Ghost", "type_hint": "TypeHint"}
    for pos, n in enumerate(names):
        v = var_of.get(n)
        key = f"member-repeat[{n}]"
        if v is None or v not in slot:
            chk.bad("R2", key, ATTR, fm.line, "category name without a slot", found=n)
            continue
        eff = copied.get(slot[v])
        exp = [(f"self.{want[n]}", "extend", [f"other.{want[n]}"])]

        def nrm(es):
            # copying by value or through clone()/iter().cloned()/to_vec() is the same copy
            return [(a, "extend" if b in ("extend", "append", "extend_from_slice") else b, [re.sub(r"(\.clone\(\)|\.iter\(\)(\.cloned\(\))?|\.to_vec\(\)|\.into_iter\(\))+$", "", str(x)) for x in c]) for a, b, c in (es or [])]
        eff = nrm(eff) if eff is not None else None
        if slot[v] in conditional:
            chk.bad("R2", key + "/unconditional", ATTR, fm.line, "the repeated instructions of this category are copied only under an additional condition on the receiving member (a member that has instructions of its own no longer receives the repeated ones)",
                    found=conditional[slot[v]][:3])
        chk.expect("R2", key, slot[v] == pos and eff == exp, ATTR, fm.line, "repeat category copies the wrong instruction vector (or its list position and slot disagree)",
                   expected={"slot": pos, "copies": exp}, found={"slot": slot[v], "copies": eff})
    chk.expect("R2", "member-repeat/all", sorted(names) == sorted(want), ATTR, fm.line, "documented member repeat categories", expected=sorted(want), found=names)
    # parse: position in MEMBER_REPEAT_TYPES selects repeat_for[idx]
    fp = repo.fn(ATTR, "parse", impl="MemberRepeatAttr")
    pos_ok = any(n["k"] == "Assign" and render(n["l"]).replace(" ", "") == "repeat_for[idx]" and render(n["r"]) == "true" for n in walk(fp.body)) and \
        "MEMBER_REPEAT_TYPES.iter().position(" in render(fp.body).replace(" ", "")
    chk.expect("R2", "MemberRepeatAttr::parse/slot-by-position", pos_ok, ATTR, fp.line, "category name is not mapped to its flag by list position")
    # --- trait level
    tnames = [render(x).strip('"') for x in repo.const(ATTR, "TRAIT_REPEAT_TYPES")["expr"]["elems"]]
    fi_t = ev.index_impls.get("TraitAttrType")
    tvars = [v["name"] for v in repo.enum(ATTR, "TraitAttrType")["variants"]]
    tslot = {}
    for v in tvars:
        ev.decisions = {}
        tslot[v] = ev.inline(fi_t, ListV(list(range(16))), [Tag(v, [], "TraitAttrType")])
    ft = repo.fn(ATTR, "merge", impl="TraitAttrCore")
    tleaves = explore(mk, lambda e_: e_.run_fn(ft, e_.sym_params(ft)))
    twant = {"vars": ("Vars", "init_data"), "update": ("Update", "update"), "quick_return": ("QuickReturn", "quick_return"), "default_case": ("DefaultCase", "default_case")}
    for pos, n in enumerate(tnames):
        key = f"trait-repeat[{n}]"
        if n not in twant:
            chk.bad("R2", key, ATTR, ft.line, "undocumented trait repeat category", found=n)
            continue
        var, fld = twant[n]
        sl = tslot.get(var)
        ok_copy = ok_conf = False
        for lf in tleaves:
            d = lf.decisions
            on = [a for a, v in d.items() if re.search(r"other\.repeat!\[\d+\]", a) and v is True]
            if d.get("self.skip_repeat") is False and d.get("other.repeat") == "Some" and len(on) == 1 and f"[{sl}]" in on[0]:
                if d.get(f"self.{fld}") == "None" or d.get(f"self.{fld}.is_some()") is False:
                    ok_copy = [e for e in lf.effects if e[0] == "assign"] == [("assign", f"self.{fld}", f"other.{fld}")] and vkey(lf.value) == "Ok(())"
                elif d.get(f"self.{fld}") == "Some" or d.get(f"self.{fld}.is_some()") is True:
                    ok_conf = isinstance(lf.value, Tag) and lf.value.name == "Err" and not [e for e in lf.effects if e[0] == "assign"]
        chk.expect("R2", key, sl == pos and ok_copy and ok_conf, ATTR, ft.line, "trait repeat category copies/guards the wrong parameter", expected={"slot": pos, "copies": fld, "conflict-guard": fld},
                   found={"slot": sl, "copy_ok": ok_copy, "conflict_ok": ok_conf})
    chk.expect("R2", "trait-repeat/all", sorted(tnames) == sorted(twant), ATTR, ft.line, "documented trait repeat categories", expected=sorted(twant), found=tnames)
    # R3 skip_repeat first
    chk.rule("R3", "skip_repeat short-circuits both merges before anything is copied", floor=2)
    for nm, lv, f_ in (("MemberAttrs::merge", leaves, fm), ("TraitAttrCore::merge", tleaves, ft)):
        sk = [lf for lf in lv if lf.get("self.skip_repeat") is True]
        ok = len(sk) == 1 and not sk[0].effects and len(sk[0].decisions) == 1
        chk.expect("R3", nm, ok, ATTR, f_.line, "skip_repeat must return before any category is examined", found=[str(x)[:100] for x in sk])


def r4(chk):
    repo = chk.repo
    chk.rule("R4", "non-permeating block ends after the variant's own fields; struct fields start from a fresh context", floor=3)
    fi = repo.fn(AST, "from_syn", impl="Variant")

    def mk():
        return Evaluator(repo, IMPL_FILES, shallow=True)
    leaves = explore(mk, lambda ev: ev.run_fn(fi, ev.sym_params(fi)))
    seen = set()
    for lf in leaves:
        d = lf.decisions
        o = d.get("ctx.field_attrs_to_repeat")
        perm = d.get("ctx.field_attrs_to_repeat!.1")
        if perm is None:
            # the permeate flag under another representation (named field, matches! guard): any boolean atom below the open block
            cand = [v for a, v in d.items() if a.startswith("ctx.field_attrs_to_repeat") and a != "ctx.field_attrs_to_repeat" and isinstance(v, bool) and re.search(r"perm|\.1\b", a)]
            perm = cand[0] if len(cand) == 1 else None
            if o == "Some" and perm is None:
                chk.inconc("R4", f"Variant::from_syn[open=Some]: the permeate flag of the open block is not identifiable among {sorted(d)[:4]}")
                continue
        effs = [e for e in lf.effects if e[0] == "assign" or (e[0] == "summary" and "multiple_from_syn" in e[1])]
        kinds_ = ["fields" if e[0] == "summary" else ("reset" if e[2] == "None" else "set") for e in effs]
        if o == "Some" and perm is False:
            exp = ["fields", "reset"]
        else:
            exp = ["fields"]
        key = f"Variant::from_syn[open={o},permeating={perm}]"
        if key in seen:
            continue
        seen.add(key)
        chk.expect("R4", key, kinds_ == exp, AST, fi.line, "carry-over of a field repeat block between variants", expected=exp, found=kinds_)
    fs = repo.fn(AST, "from_syn", impl="Struct")
    cs = [c for c in calls(fs.body, "multiple_from_syn")]
    a0 = render(cs[0]["args"][0]).replace(" ", "") if len(cs) == 1 else None
    ctx_args = [render(a).replace(" ", "") for c in cs for a in c["args"] if re.search(r"default\(\)|Context\{|ctx", render(a))] if cs else []
    good = len(cs) == 1 and any(a in ("&mutDefault::default()", "&mutContext::default()") for a in ctx_args)
    bad = len(cs) == 1 and any(re.fullmatch(r"&mut\w+|\w+", a) and not a.endswith("default()") for a in ctx_args)  # an existing context is passed on
    chk.shape("R4", "Struct::from_syn/fresh-context", good, bad and not good, AST, fs.line, what="struct fields must start with no open repeat block", found=ctx_args or a0)
    fv = repo.fn(AST, "multiple_from_syn", impl="Variant")
    ctx_init = [n for n in walk(fv.body) if n["k"] == "Struct" and n["path"] == "Context"]
    lit_ok = len(ctx_init) == 1 and all(render(f["expr"]) == "None" for f in ctx_init[0]["fields"]) and len(ctx_init[0]["fields"]) == 2
    lit_bad = len(ctx_init) >= 1 and any(render(f["expr"]).startswith("Some") for c_ in ctx_init for f in c_["fields"])
    dflt = [c for c in calls(fv.body) if render(c["func"]).replace(" ", "") in ("Context::default", "Default::default")]
    derives_default = any(it["k"] == "Struct" and it["name"] == "Context" and any(a["path"] == "derive" and "Default" in a["tokens"] for a in it["attrs"]) for it, _i, _c in repo.items(AST))
    chk.shape("R4", "Variant::multiple_from_syn/fresh-context", lit_ok or (not ctx_init and len(dflt) >= 1 and derives_default), lit_bad, AST, fv.line,
              what="enum starts with no open repeat block", found=render(ctx_init[0]) if ctx_init else [render(c)[:40] for c in dflt])


def r5(chk):
    repo = chk.repo
    chk.rule("R5", "trait-level repeat key (applicable_to, fallible) is injective over the 24 instruction names", floor=1)
    rows, fi = instr_table(repo, "parse_data_type_instruction")
    seen = {}
    for r in rows:
        if r["name"] in TRAIT_NAMES and not (r["leaf"].panic or r["leaf"].unsupported):
            var, st = trait_attr_of(r["leaf"].value)
            if st is not None:
                k = (vkey(st.fields.get("applicable_to")), st.fields.get("fallible"))
                seen.setdefault(k, set()).add(r["name"])
    dup = {str(k): sorted(v) for k, v in seen.items() if len(v) > 1}
    chk.expect("R5", "repeat-key-injective", not dup and len(seen) == 24, ATTR, fi.line, "two instruction names share a repeat key: `repeat` on one would leak onto the other", found=dup or len(seen))
    f2 = repo.fn(ATTR, "get_data_type_attrs")
    # the key of the pending-repeat map: the tuple (X.applicable_to, X.fallible), wherever in attr.rs it is built
    tuples = [n for fn_ in repo.fns(ATTR) for n in walk(fn_.body) if n["k"] == "Tuple" and any(render(e_).replace(" ", "").endswith(".applicable_to") for e_ in n["elems"])]
    good = [t for t in tuples if len(t["elems"]) == 2 and re.fullmatch(r"(\w+)\.applicable_to", render(t["elems"][0]).replace(" ", "")) and
            render(t["elems"][1]).replace(" ", "") == render(t["elems"][0]).replace(" ", "").replace(".applicable_to", ".fallible")]
    # recognised-bad as well: the pending-repeat map is keyed / queried by the applicability vector alone (an instruction and its try_ twin share it)
    alone = [m_ for fn_ in repo.fns(ATTR) for m_ in method_calls(fn_.body) if m_["method"] in ("insert", "get", "get_mut", "remove", "contains_key", "entry") and m_["args"] and
             re.fullmatch(r"&?(\w+\.)+applicable_to(\.clone\(\))?", render(m_["args"][0]).replace(" ", ""))]
    alone += [st for fn_ in repo.fns(ATTR) if fn_.name in ("get_data_type_attrs",) for st in walk(fn_.body) if st["k"] == "Let" and st.get("init") is not None and
              re.fullmatch(r"&?(\w+\.)+applicable_to(\.clone\(\))?", render(st["init"]).replace(" ", "")) and any(m_["args"] and render(m_["args"][0]).replace(" ", "").lstrip("&") == (st["pat"].get("name") or "?") for m_ in method_calls(fn_.body) if m_["method"] in ("insert", "get", "get_mut", "remove", "contains_key"))]
    chk.shape("R5", "repeat-key-definition", bool(tuples) and len(good) == len(tuples) and not alone, (bool(tuples) and len(good) < len(tuples)) or bool(alone), ATTR, f2.line,
              what="repeat map key is not (applicable_to, fallible) of one instruction", found=[render(t)[:60] for t in tuples])


def run(chk):
    chk.guard("R1", lambda: r1(chk))
    chk.guard("R2", lambda: r2(chk))
    chk.guard("R4", lambda: r4(chk))
    chk.guard("R5", lambda: r5(chk))
