"""F4: finite tables read out of the repository (name tables, slot maps, README tables)."""
import re

from .pe import Evaluator, ListV, OTHER_STR, StructV, SymObj, Tag, Toks, explore, vkey
from .src import Inconclusive

IMPL_FILES = ["o2o-impl/src/ast.rs", "o2o-impl/src/attr.rs", "o2o-impl/src/expand.rs", "o2o-impl/src/validate.rs"]
ATTR = "o2o-impl/src/attr.rs"
EXPAND = "o2o-impl/src/expand.rs"
VALIDATE = "o2o-impl/src/validate.rs"
AST = "o2o-impl/src/ast.rs"


def kinds(repo):
    return [v["name"] for v in repo.enum(ATTR, "Kind")["variants"]]


def is_ref_kind(k):
    return k in ("RefInto", "FromRef", "RefIntoExisting")


def direction(k):
    if k in ("FromOwned", "FromRef"):
        return "From"
    if k in ("OwnedInto", "RefInto"):
        return "Into"
    if k in ("OwnedIntoExisting", "RefIntoExisting"):
        return "Existing"
    return "?"


def kind_slots(repo):
    """Kind -> slot index of `impl Index<&Kind> for ApplicableTo`, by evaluating its match."""
    ev = Evaluator(repo, IMPL_FILES)
    fi = ev.index_impls.get("Kind")
    if fi is None:
        raise Inconclusive("anchor missing: impl Index<&Kind> for ApplicableTo")
    out = {}
    for k in kinds(repo):
        ev.decisions = {}
        v = ev.inline(fi, ListV(list(range(16))), [Tag(k, [], "Kind")])
        if not isinstance(v, int):
            raise Inconclusive(f"Index<&Kind>: slot of {k} is not a constant: {vkey(v)}")
        out[k] = v
    return out, fi


def string_predicates(repo):
    """Names of fns `fn f(x: &str) -> bool` (the appl_* helpers): always inlined."""
    out = set()
    for fi in repo.fns(ATTR):
        sig = fi.node["sig"]
        if sig["output"].replace(" ", "") == "bool" and len(sig["inputs"]) == 1 and sig["inputs"][0].get("ty", "").replace(" ", "") == "&str":
            out.add(fi.name)
    return out


def instr_table(repo, fn_name, flags=("own_instr", "bark")):
    """Partially evaluate parse_*_instruction over its finite name domain.

    Returns (rows, fi): rows = list of dicts {name, own_instr?, bark?, result(Tag/…), leaf}.
    """
    fi = repo.fn(ATTR, fn_name)
    ev_holder = {}

    preds = string_predicates(repo)

    def mk():
        return Evaluator(repo, IMPL_FILES, shallow=True, transparent=preds)

    def run(ev):
        args = ev.sym_params(fi)
        return ev.run_fn(fi, args)

    leaves = explore(mk, run)
    rows = []
    for lf in leaves:
        name = None
        fl = {}
        for a, v in lf.decisions.items():
            if isinstance(v, str) and (a.startswith("str(") or "to_string" in a or "instr" in a) and not isinstance(v, bool):
                name = v
            elif a in flags:
                fl[a] = v
        rows.append({"name": name, "flags": fl, "leaf": lf})
    return rows, fi


def unwrap_ok(v):
    if isinstance(v, Tag) and v.name == "Ok" and v.args:
        return v.args[0]
    return v


def trait_attr_of(v):
    """From Ok(X::Map(TraitAttr/MemberAttr{..})) return (variant_name, struct fields) or (variant, None)."""
    v = unwrap_ok(v)
    if isinstance(v, Tag):
        if v.args and isinstance(v.args[0], StructV):
            return v.name, v.args[0]
        return v.name, None
    return None, None


def applicable_kinds(struct_v, slots):
    at = struct_v.fields.get("applicable_to")
    if not isinstance(at, ListV):
        raise Inconclusive("applicable_to is not an array literal: " + vkey(at))
    out = set()
    for k, s in slots.items():
        if s >= len(at.elems):
            raise Inconclusive(f"slot {s} out of range of applicable_to literal")
        b = at.elems[s]
        if not isinstance(b, bool):
            raise Inconclusive("applicable_to entry is not a constant: " + vkey(b))
        if b:
            out.add(k)
    return out


# ------------------------------------------------------------------ morphology oracle
def morph_trait_name(name):
    """Expected (fallible, kinds) of a trait-instruction name from its morphology, or None."""
    parts = name.split("_")
    fallible = "try" in parts
    parts = [p for p in parts if p != "try"]
    qual = None
    if parts and parts[0] in ("owned", "ref"):
        qual = parts[0]
        parts = parts[1:]
    elif len(parts) > 1 and parts[-1] in ("owned", "ref"):
        qual = parts[-1]
        parts = parts[:-1]
    base = "_".join(parts)
    own = {"owned": (True, False), "ref": (False, True), None: (True, True)}[qual]
    ks = set()
    if base in ("from", "map"):
        if own[0]:
            ks.add("FromOwned")
        if own[1]:
            ks.add("FromRef")
    if base in ("into", "map"):
        if own[0]:
            ks.add("OwnedInto")
        if own[1]:
            ks.add("RefInto")
    if base == "into_existing":
        if own[0]:
            ks.add("OwnedIntoExisting")
        if own[1]:
            ks.add("RefIntoExisting")
    if base not in ("from", "into", "map", "into_existing"):
        return None
    return fallible, ks


TRAIT_NAMES_INFALLIBLE = ["owned_into", "ref_into", "into", "from_owned", "from_ref", "from", "map_owned", "map_ref", "map",
                          "owned_into_existing", "ref_into_existing", "into_existing"]
TRAIT_NAMES_FALLIBLE = ["owned_try_into", "ref_try_into", "try_into", "try_from_owned", "try_from_ref", "try_from", "try_map_owned",
                        "try_map_ref", "try_map", "owned_try_into_existing", "ref_try_into_existing", "try_into_existing"]
TRAIT_NAMES = TRAIT_NAMES_INFALLIBLE + TRAIT_NAMES_FALLIBLE
# member level: the property counts 21 mapping names (no fallible into_existing forms at member level)
MEMBER_NAMES = TRAIT_NAMES_INFALLIBLE + [n for n in TRAIT_NAMES_FALLIBLE if "existing" not in n]


# ------------------------------------------------------------------ README oracle
def readme_shortcut_matrix(repo):
    """Parse the shortcut matrix of README.md: {shortcut: set(basic names)}."""
    txt = repo.text("README.md") if "README.md" in repo._text or True else ""
    lines = txt.splitlines()
    hdr = None
    for i, ln in enumerate(lines):
        if ln.strip().startswith("|") and "#[map()]" in ln and "#[into_existing()]" in ln:
            hdr = i
            break
    if hdr is None:
        raise Inconclusive("README shortcut matrix not found")
    cols = [re.sub(r"[#\[\]()\s*]", "", c) for c in lines[hdr].strip().strip("|").split("|")][1:]
    out = {c: set() for c in cols}
    i = hdr + 2
    rows = 0
    while i < len(lines) and lines[i].strip().startswith("|"):
        cells = [c.strip() for c in lines[i].strip().strip("|").split("|")]
        basic = re.sub(r"[#\[\]()\s*]", "", cells[0])
        for c, cell in zip(cols, cells[1:]):
            if "✔" in cell:
                out[c].add(basic)
        rows += 1
        i += 1
    return out, rows, hdr + 1


BASIC_KIND = {"from_owned": "FromOwned", "from_ref": "FromRef", "owned_into": "OwnedInto", "ref_into": "RefInto",
              "owned_into_existing": "OwnedIntoExisting", "ref_into_existing": "RefIntoExisting"}
