#!/bin/bash
# maintenance helper: re-run the quick checks against every kept seeded change (applied to /repo, undone afterwards)
cd /verif
for d in seeded/*/; do
  id=$(basename $d); prop=$(python3 -c "import json;print(json.load(open('$d/meta.json'))['breaks_property'])")
  git -C /repo apply /verif/$d/patch.diff || { echo "$id: patch does not apply"; continue; }
  fired=""
  for n in $(seq -w 1 20); do O2O_SCRATCH_EVIDENCE=1 ./check C$n >/dev/null 2>&1; c=$?; [ $c -eq 1 ] && fired="$fired C$n"; [ $c -eq 2 ] && fired="$fired C$n(?)"; done
  git -C /repo checkout -- .
  own=$(echo "$fired" | grep -qw "$prop" && echo yes || echo NO)
  echo "$id breaks=$prop own-check-fires=$own fired:$fired"
  python3 - "$d/meta.json" "$fired" <<'PY'
import json,sys
m=json.load(open(sys.argv[1])); m['checks_firing']=sys.argv[2].strip(); json.dump(m,open(sys.argv[1],'w'),indent=1)
PY
done
