#!/bin/bash
# maintenance helper: run checks against a scratch copy of /repo with an arbitrary patch file applied; /repo untouched
# usage: tools/try_patch.sh <patch-file> <CHECK>...    prints "<CHECK> exit=<code>" and the first report lines
cd /verif
p=$1; shift
T=$(mktemp -d /tmp/o2o-copy-XXXXXX)
(cd /repo && tar cf - --exclude=target --exclude=.git . ) | (cd $T && tar xf -)
(cd $T && patch -s -p1 < $p) || { echo "PATCH DOES NOT APPLY"; rm -rf $T; exit 1; }
for c in "$@"; do
  out=$(O2O_REPO=$T O2O_SCRATCH_EVIDENCE=1 ./check $c 2>&1); code=$?
  echo "$c exit=$code"; echo "$out" | grep -E "rule=|^INCONC" | cut -c1-260 | head -4
done
rm -rf $T
