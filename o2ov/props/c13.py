"""C13 — #[o2o(...)] alternative syntaxes generate the same code as bare attributes."""
import re
from ..pe import Evaluator, StructV, SymObj, Tag, Toks, explore, vkey
from ..src import Inconclusive, calls, method_calls, render, walk, walk_with_parents
from ..tables import ATTR, IMPL_FILES, instr_table, trait_attr_of

LEVEL = "other"
EXPLANATION = (
    "Both spellings must reach one instruction parser with the same (name, argument tokens) and differ only in diagnostic policy. "
    "R1: in get_data_type_attrs and get_member_attrs each branch (o2o-list / bare) calls the same parse_*_instruction exactly once, with "
    "the instruction ident and the content of one optional parenthesised group (OptionalParenthesizedTokenStream::content evaluated: None -> empty, "
    "Some(x) -> x). R2: the complete name table of both parsers, evaluated for every name under all four (own_instr, bark) valuations: a name that "
    "yields a real instruction under any valuation yields the same instruction (same payload parser, same applicability) under all; only "
    "diagnostic classes may depend on the flags. R3: instructions are appended in written order (no reordering adaptor), and parse errors "
    "propagate with `?` in both branches.")
NOT_DECIDED = ["token equality of the two expansions as such", "that syn hands the same argument tokens for `#[a(x)]` and `a(x)` inside a list (library behaviour)"]

DIAG = {"AllowUnknown", "Misplaced", "Misnamed", "UnrecognizedWithError", "Unrecognized"}


def r1(chk):
    repo = chk.repo
    chk.rule("R1", "both spellings call the same parser once with (ident, content of the optional parenthesised group)", floor=4)
    for getter, parser in (("get_data_type_attrs", "parse_data_type_instruction"), ("get_member_attrs", "parse_member_instruction")):
        fi = repo.fn(ATTR, getter)
        cs = list(calls(fi.body, parser))
        others = [c for c in calls(fi.body) if c["func"]["segs"][-1].startswith("parse_") and c["func"]["segs"][-1].endswith("_instruction") and c["func"]["segs"][-1] != parser]
        chk.expect("R1", f"{getter}/one-parser", len(cs) == 2 and not others, ATTR, fi.line, "the two spellings do not share exactly one instruction parser",
                   expected=f"2 calls of {parser}", found=[render(c)[:80] for c in cs + others])
        for c in cs:
            args = [render(a).replace(" ", "") for a in c["args"]]
            if len(args) != 4:
                chk.bad("R1", f"{getter}/{parser}-arity", ATTR, c["line"], "unexpected arity", found=args)
                continue
            own = args[2]
            if own == "true":
                branch = "o2o-list"
                ok = args[0] in ("&instr", "instr") and args[1].endswith(".content()") and args[3] == "true"
                # the thing whose content() is passed must be parsed as OptionalParenthesizedTokenStream right after the ident
                recv = args[1][: -len(".content()")]
                decl_ok = False
                for n in walk(fi.body):
                    if n["k"] == "Let" and n["pat"].get("k") == "PType" and n["pat"]["pat"].get("name") == recv and "OptionalParenthesizedTokenStream" in n["pat"]["ty"]:
                        decl_ok = render(n.get("init")).replace(" ", "") == "input.parse()?"
                ok = ok and decl_ok
            elif own == "false":
                branch = "bare"
                ok = args[0] in ("&instr", "instr") and args[1] == "tokens" and args[3] == "bark"
            else:
                branch = "?"
                ok = False
            vocab = {"&instr", "instr", "tokens", "true", "false", "bark", "TokenStream::new()", "!bark"}
            recognised = all(a in vocab or a.endswith(".content()") for a in args)
            chk.shape("R1", f"{getter}/{branch}", ok, recognised and not ok, ATTR, c["line"], "parser called with unexpected arguments for this spelling",
                      expected="(instr, <group content>, own, bark)", found=args)
    # OptionalParenthesizedTokenStream::content: None -> empty stream, Some(x) -> x
    fc = repo.fn(ATTR, "content", impl="OptionalParenthesizedTokenStream")
    ev = Evaluator(repo, IMPL_FILES)
    v_none = ev.inline(fc, StructV("OptionalParenthesizedTokenStream", {"content": Tag("None", [], "Option")}), [])
    x = SymObj("X", ("toks",))
    v_some = ev.inline(fc, StructV("OptionalParenthesizedTokenStream", {"content": Tag("Some", [x], "Option")}), [])
    none_empty = (isinstance(v_none, Toks) and not v_none.toks) or (vkey(v_none) == "Default::default()" and "TokenStream" in (fc.node["sig"].get("output") or ""))
    chk.expect("R1", "OptionalParenthesizedTokenStream::content", none_empty and v_some is x, ATTR, fc.line,
               "content() must be identity on the group's tokens and empty when there is no group", found=[vkey(v_none), vkey(v_some)])
    # ::parse: parenthesised group only
    fp = repo.fn(ATTR, "parse", impl="OptionalParenthesizedTokenStream")
    peeks = [render(m["args"][0]) for m in method_calls(fp.body, "peek")]
    macs = [n["last"] for n in walk(fp.body) if n["k"] == "Macro"]
    # recognised-bad: another delimiter, or the group is demanded without looking for `(` first (inside #[o2o(a, b(..))] an instruction
    # without arguments is followed by `,`: only a Paren peek tells "no group" from "group")
    no_peek = not peeks and macs == ["parenthesized"]
    chk.shape("R1", "OptionalParenthesizedTokenStream::parse", peeks == ["Paren"] and macs == ["parenthesized"], bool(set(peeks) & {"Brace", "Bracket"}) or bool(set(macs) & {"braced", "bracketed"}) or no_peek, ATTR, fp.line,
              "argument group must be exactly one optional parenthesised group", found={"peek": peeks, "macros": macs})


def r2(chk):
    repo = chk.repo
    chk.rule("R2", "own_instr / bark change only diagnostic classes, never which instruction a name denotes", floor=60)
    for parser in ("parse_data_type_instruction", "parse_member_instruction"):
        rows, fi = instr_table(repo, parser)
        chk.unit("name_table_rows", len(rows))
        by = {}
        for r in rows:
            by.setdefault(r["name"], []).append(r)
        for name, rs in by.items():
            shown = "<other>" if name is None or name.startswith("\x00") else name
            real = []
            diag = []
            for r in rs:
                lf = r["leaf"]
                if lf.panic or lf.unsupported:
                    chk.bad("R2", f"{parser}[{shown}]", ATTR, fi.line, "arm not evaluable", found=str(lf.panic or lf.unsupported))
                    continue
                var, st = trait_attr_of(lf.value)
                (diag if var in DIAG else real).append((var, vkey(lf.value), r["flags"]))
            if real:
                same = len({v for _n, v, _f in real}) == 1 and not diag
                chk.expect("R2", f"{parser}[{shown}]", same, ATTR, fi.line, "the instruction a name denotes depends on the spelling flags (own_instr/bark)",
                           expected="one result for all flag valuations", found=[(n, f) for n, _v, f in real + diag][:6])
            else:
                # only the `own:` field / class may vary
                chk.ok("R2", f"{parser}[{shown}]", ATTR, fi.line, detail={"diagnostic_classes": sorted({n for n, _v, _f in diag})})


def r3(chk):
    repo = chk.repo
    chk.rule("R3", "instructions keep written order and parse errors propagate in both branches", floor=4)
    for getter, parser in (("get_data_type_attrs", "parse_data_type_instruction"), ("get_member_attrs", "parse_member_instruction")):
        fi = repo.fn(ATTR, getter)
        meths = set()
        for m in method_calls(fi.body):
            r = render(m["recv"]).replace(" ", "")
            if r in ("instrs", "new_instrs", "input", "input.iter()", "input.get_attrs()", "input.get_attrs().iter()") or r.startswith("instrs.") or r.startswith("new_instrs."):
                meths.add(m["method"])
        bad = sorted(meths & {"sort", "sort_by", "sort_by_key", "sort_unstable", "sort_unstable_by", "reverse", "rev", "dedup", "dedup_by", "dedup_by_key", "retain", "swap", "insert", "remove", "pop", "truncate", "drain", "skip", "take", "step_by", "filter", "skip_while", "take_while"})
        chk.expect("R3", f"{getter}/order", not bad, ATTR, fi.line, "instruction list is reordered or pruned before use", found=bad)
        # the producing loop (the one around the parser calls) walks the attribute list itself, front to back, whatever the spelling
        REORDER = {"partition", "chain", "rev", "filter", "filter_map", "skip", "take", "step_by", "skip_while", "take_while", "sort", "sort_by", "sort_by_key",
                   "sort_unstable", "sort_unstable_by", "sort_by_cached_key", "reverse", "retain", "dedup", "rsplit", "split_at", "partition_in_place", "zip", "rotate_left", "rotate_right"}
        prod = None
        for node, parents in walk_with_parents(fi.body):
            if node["k"] == "Call" and node["func"]["k"] == "Path" and node["func"]["segs"][-1] == parser:
                fs = [p for p in parents if p["k"] == "For"]
                if fs:
                    prod = fs[0]
                    break
        if prod is None:
            chk.inconc("R3", f"{getter}/source-order: the parser calls are not inside a for loop over the attributes any more")
        else:
            it = render(prod["iter"]).replace(" ", "")
            names = {n["segs"][0] for n in walk(prod["iter"]) if n["k"] == "Path" and len(n["segs"]) == 1}
            inits = [st.get("init") for st in walk(fi.body) if st["k"] == "Let" and st.get("init") is not None and any(q["k"] == "PIdent" and q["name"] in names for q in walk(st["pat"]))]
            used = {m["method"] for e in [prod["iter"]] + inits for m in method_calls(e)} if True else set()
            good = re.fullmatch(r"&?input(\.get_attrs\(\))?(\.iter\(\))?", it) is not None
            bad_ = sorted(used & REORDER)
            chk.shape("R3", f"{getter}/source-order", good, bool(bad_), ATTR, prod["line"],
                      what="attributes are regrouped / filtered before being parsed: a bare attribute and the same instruction inside #[o2o(..)] are no longer handled at the same position",
                      expected="for x in input.iter()", found={"iter": it[:100], "adaptors": bad_})
        # every instruction parsed out of an #[o2o(..)] list is kept: the list is appended as a whole, under no condition on its content
        from ..panics import guard_conjuncts
        exts = [m for m in method_calls(fi.body, "extend") if render(m["recv"]).replace(" ", "") in ("instrs",)] + \
               [m for m in method_calls(fi.body, "append") if render(m["recv"]).replace(" ", "") in ("instrs",)]
        for k_, m in enumerate(exts):
            arg = render(m["args"][0]).replace(" ", "") if m["args"] else ""
            conds = guard_conjuncts(fi, m)
            cond_bad = [c for c in conds if re.search(r"AllowUnknown|allow_unknown", c)]
            pruned = re.search(r"\.(take_while|skip_while|filter|take|skip|step_by|filter_map)\(", arg)
            chk.shape("R3", f"{getter}/list-kept#{k_}", not cond_bad and not pruned and re.fullmatch(r"&?(mut)?\w+(\.into_iter\(\)|\.drain\(\.\.\))?", arg) is not None, bool(cond_bad) or bool(pruned), ATTR, m["line"],
                      what="instructions grouped in one #[o2o(..)] list are dropped (the list is appended only under a condition on its content, or pruned): the grouped spelling no longer equals the separate attributes",
                      expected="instrs.extend(new_instrs)", found={"argument": arg[:80], "conditions": cond_bad})
        # each parser call's error must propagate
        for node, parents in walk_with_parents(fi.body):
            if node["k"] == "Call" and node["func"]["k"] == "Path" and node["func"]["segs"][-1] == parser:
                own = render(node["args"][2]) if len(node["args"]) > 2 else "?"
                ok = False
                if parents and parents[-1]["k"] == "Try":
                    ok = True
                else:
                    # tail of a closure passed (transitively) to a call whose result is `?`-propagated
                    trys = [i for i, p in enumerate(parents) if p["k"] == "Try"]
                    clos = [i for i, p in enumerate(parents) if p["k"] == "Closure"]
                    ok = bool(trys) and bool(clos) and min(trys) < max(clos)
                chk.expect("R3", f"{getter}/propagate[own={own}]", ok, ATTR, node["line"], "a parse error of this spelling is swallowed instead of propagated")
        # the consuming loop iterates `instrs` itself
        fors = [n for n in walk(fi.body) if n["k"] == "For" and render(n["iter"]).replace(" ", "") == "instrs"]
        chk.expect("R3", f"{getter}/consume", len(fors) == 1, ATTR, fi.line, "instructions are not consumed by one in-order loop", found=len(fors))


def run(chk):
    chk.guard("R1", lambda: r1(chk))
    chk.guard("R2", lambda: r2(chk))
    chk.guard("R3", lambda: r3(chk))
