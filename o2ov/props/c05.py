"""C05 — the most specific applicable member instruction wins; others never interfere."""
import re

from ..pe import Clos, Evaluator, SymObj, Tag, explore, vkey, ListV, vkey
from ..src import Inconclusive, calls, method_calls, render, walk, walk_with_parents
from ..tables import ATTR, EXPAND, IMPL_FILES, VALIDATE, direction, kinds

TECHNIQUE = "static analysis: partial evaluation of the lookup chain over (kind, fallible) + small-scope abstract evaluation of every lookup accessor over vectors of abstract instructions (no execution of o2o)"
LEVEL = "other"
EXPLANATION = (
    "The lookup order is a fixed `or_else` chain guarded by constants of the conversion; partially evaluating it for each of the 12 "
    "(kind, fallible) cells with the per-step lookups summarised yields the exact probe sequence, which is compared with the order "
    "the property states (ghost, exact kind, infallible of that kind, `into` for `into_existing`, its infallible form). The same "
    "extraction on validation's copy (applicable_field_attr, with the arguments actually passed at its call sites) and on the "
    "nested-parent copy (get_for_kind) must agree. R3: every accessor taking a counterpart type is `find(R∧dedicated).or_else(find(R∧default))` "
    "with the same residual filter R on both sides (truth tables of both predicates). R4: expand.rs reads member instruction vectors only through these accessors. "
    " R3 is decided by evaluating each accessor (std iterator / loop semantics) on every vector of at most three abstract instructions {default, dedicated to the queried type, dedicated elsewhere}, each with its own symbolic residual record; the report is a counterexample vector. R5/R6 import the name-table contract (C12) and the call-site argument rule (C06.R2).")
NOT_DECIDED = ["token equality of the impls an unrelated instruction must not touch (follows from R4 only because every read is per conversion)"]


def expected_sequence(k, f, with_ghost=True):
    seq = []
    if with_ghost:
        seq.append(("ghost", k))
    seq.append(("attr", k, f))
    if f:
        seq.append(("attr", k, False))
    into = {"OwnedIntoExisting": "OwnedInto", "RefIntoExisting": "RefInto"}.get(k)
    if into:
        seq.append(("attr", into, f))
        if f:
            seq.append(("attr", into, False))
    return seq


def norm_probe(atom, k, f):
    """'self.field_attr_core(OwnedInto, true, container_ty)' -> ('attr','OwnedInto',True)"""
    m = re.match(r"self\.(\w+)\((.*)\)$", atom)
    if not m:
        m2 = re.match(r"self\.attrs\.iter\(\)\.find\(.*\[kind=(\w+)\]\)$", atom)
        if m2:
            kk = m2.group(1)
            return ("attr", k if kk == "kind" else kk, f)
        return ("?", atom)
    name, args = m.group(1), [a.strip() for a in m.group(2).split(",")]
    if name == "ghost":
        kk = [a for a in args if a != "container_ty"]
        return ("ghost", k if kk == ["kind"] else (kk[0] if kk else "?"))
    kk = k if args[0] == "kind" else args[0]
    ff = f if args[1] == "fallible" else (args[1] == "true")
    if len(args) < 3 or args[2] != "container_ty":
        return ("?", atom)
    return ("attr", kk, ff)


def probe_sequence(repo, fi, opaque, k, f, has_fallible=True):
    def mk():
        return Evaluator(repo, IMPL_FILES, opaque=opaque)

    preset = {"kind": k}
    if has_fallible:
        preset["fallible"] = f
    leaves = explore(mk, lambda ev: ev.run_fn(fi, ev.sym_params(fi)), preset=preset)
    # the all-None leaf lists the probes in order
    none_leaf = None
    for lf in leaves:
        opts = [(a, v) for a, v in lf.decisions.items() if a not in preset]
        if all(v == "None" for _a, v in opts):
            none_leaf = lf
    if none_leaf is None or none_leaf.panic or none_leaf.unsupported:
        raise Inconclusive(f"{fi.qual}: cannot extract probe sequence for ({k},{f})")
    seq_atoms = [a for a in none_leaf.decisions if a not in preset]
    tail = none_leaf.value
    if isinstance(tail, SymObj):
        seq_atoms.append(tail.path)
    seq = [norm_probe(a, k, f) for a in seq_atoms]
    # first-Some-wins: leaf with probe i Some and earlier None returns that probe's value
    wins_ok = True
    for i, a in enumerate(seq_atoms):
        for lf in leaves:
            d = lf.decisions
            if d.get(a) == "Some" and all(d.get(b) == "None" for b in seq_atoms[:i]):
                if lf.panic or lf.unsupported or a not in vkey(lf.value):
                    wins_ok = False
    return seq, wins_ok, len(leaves)


def r1_r2(chk):
    repo = chk.repo
    chk.rule("R1", "MemberAttrs::applicable_attr probes ghost, (K,f), [f](K,false), [K=*IntoExisting](Into,f), [..and f](Into,false) in this order; the first hit wins", floor=12)
    chk.rule("R2", "validation's and the nested-parent copy of the chain probe the same sequence (for the arguments actually passed)", floor=18)
    fi = repo.fn(ATTR, "applicable_attr", impl="MemberAttrs")
    fv = repo.fn(ATTR, "applicable_field_attr", impl="MemberAttrs")
    fp = repo.fn(ATTR, "get_for_kind", impl="ParentChildField")
    # what validation passes as `fallible`
    sites = []
    for vf in repo.fns(VALIDATE):
        for m in method_calls(vf.body, "applicable_field_attr"):
            a1 = m["args"][1] if len(m["args"]) > 1 else None
            sites.append((vf, m, render(a1) if a1 else "?"))
    if not sites:
        raise Inconclusive("no call of applicable_field_attr in validate.rs")
    chk.unit("applicable_field_attr_call_sites", len(sites))
    for k in kinds(repo):
        for f in (False, True):
            seq, wins, n = probe_sequence(repo, fi, {"ghost", "field_attr_core"}, k, f)
            chk.unit("chain_leaves", n)
            exp = expected_sequence(k, f)
            chk.expect("R1", f"applicable_attr[{k},fallible={f}]", seq == exp and wins, ATTR, fi.line, "lookup order differs from 'most specific first'", expected=exp, found=seq)
            # validation's copy, per call site
            for vf, m, farg in sites:
                if farg in ("false", "true"):
                    fa = farg == "true"
                else:
                    fa = f  # a variable: assume it carries the conversion's fallibility
                vseq, vwins, _ = probe_sequence(repo, fv, {"field_attr"}, k, fa)
                expv = expected_sequence(k, f, with_ghost=False)
                key = f"{vf.qual}:applicable_field_attr[{k},fallible={f}]"
                chk.expect("R2", key, vseq == expv and vwins, VALIDATE, m["line"],
                           "validation looks at a different instruction than expansion uses for this conversion", expected=expv, found=vseq, detail={"fallible_arg": farg})
        # nested parent copy (no fallible axis)
        pseq, pwins, _ = probe_sequence(repo, fp, set(), k, False, has_fallible=False)
        expp = [p for p in expected_sequence(k, False, with_ghost=False)]
        chk.expect("R2", f"ParentChildField::get_for_kind[{k}]", pseq == expp and pwins, ATTR, fp.line, "nested-parent fallback order differs", expected=expp, found=pseq)
    # applicable_attr must only ever construct Ghost / Field
    ctors = sorted({n["path"].split("::")[-1] for n in walk(fi.body) if n["k"] == "Path" and n["path"].startswith("ApplicableAttr::")})
    chk.expect("R1", "applicable_attr/range", ctors == ["Field", "Ghost"], ATTR, fi.line, "unexpected ApplicableAttr constructor", found=ctors)


ACCESSORS = [
    ("DataTypeAttrs", "ghosts_attr"), ("DataTypeAttrs", "where_attr"), ("DataTypeAttrs", "child_parents_attr"),
    ("MemberAttrs", "child"), ("MemberAttrs", "ghost"), ("MemberAttrs", "lit"), ("MemberAttrs", "pat"), ("MemberAttrs", "type_hint"),
    ("MemberAttrs", "parameterized_parent_attr"), ("MemberAttrs", "field_attr"), ("MemberAttrs", "field_attr_core"),
]
PREDICATES = [("MemberAttrs", "has_parent_attr"), ("MemberAttrs", "has_parameterless_parent_attr")]


def pred_table(repo, clos_node, env_names):
    """Truth table of a closure predicate |x| ... as {frozenset(atom=value): bool}."""
    def mk():
        return Evaluator(repo, IMPL_FILES)

    def run(ev):
        env = {n: SymObj(n, t) for n, t in env_names.items()}
        c = Clos(clos_node["params"], clos_node["body"], env, ev)
        return ev.truth(ev.call_closure(c, [SymObj("x", ("named", "?elem"))]))
    return explore(mk, run)


CT_SOME = "x.container_ty"


def classify(leaves):
    """Map each leaf to (class, residual) where class in {'dedicated','other-type','default'} and residual = other atoms."""
    out = []
    for lf in leaves:
        if lf.panic or lf.unsupported:
            raise Inconclusive("predicate not evaluable: " + str(lf.panic or lf.unsupported))
        d = dict(lf.decisions)
        ct = None
        eq = None
        resid = {}
        for a, v in d.items():
            a2 = a.replace("x.attr.container_ty", "x.container_ty")
            if re.fullmatch(r"x\.container_ty(\.is_some\(\)|\.is_none\(\))?", a2):
                ct = (v == "Some") if v in ("Some", "None") else v
                if a2.endswith("is_none()"):
                    ct = not v
            elif "container_ty" in a2 and "==" in a2:
                eq = v
            else:
                resid[a] = v
        out.append((ct, eq, tuple(sorted(resid.items())), lf.value))
    return out


# ---- small-scope semantics of a lookup: the accessor body is evaluated (std iterator semantics, see pe.IterV) on every vector of at
# most 3 abstract instructions drawn from {default, dedicated to the queried type T, dedicated to another type U}; everything else an
# element carries is ONE shared symbolic record, so the residual filter (applicable_to[kind], fallible, child_fields ..) takes the same
# value for all elements and is enumerated by decision forking.  Contract: with R := "lookup([T]) is Some" under the same residual
# assignment, lookup([N]) is Some <=> R, lookup([U]) is None, and lookup(v) = first T of v, else first N of v, else None (None when !R).
def _elem(cls, i):
    from ..pe import StructV
    ct = Tag("None", [], "Option") if cls == "N" else Tag("Some", [cls], "Option")
    rest = SymObj(f"instr{i}", ("named", "?"))
    inner = StructV("Attr", {"container_ty": ct, "_id": i, "_cls": cls}, rest=SymObj(f"instr{i}.attr", ("named", "?")))
    return StructV("Instr", {"container_ty": ct, "attr": inner, "_id": i, "_cls": cls}, rest=rest)


def _vec_field(fi):
    """The instruction vector(s) the accessor reads off self: self.<field> paths."""
    out = []
    for n in walk(fi.body):
        if n["k"] == "Field" and n["base"]["k"] == "Path" and n["base"]["segs"] == ["self"]:
            out.append(n["member"])
    return sorted(set(out))


def lookup_semantics(repo, fi, impl):
    """Returns (verdict, detail): True / False(witness) / None(reason)."""
    import itertools
    from ..pe import StructV, Unsupported, PanicReached, IterV
    vecs = [f["name"] for f in repo.struct(ATTR, impl)["fields"]["fields"] if f["ty"].replace(" ", "").startswith("Vec<")]
    if not vecs:
        return None, "no instruction vectors in " + impl
    helpers = {f.name for f in repo.fns(ATTR) if f.impl == impl}

    def run_on(vector):
        def mk():
            ev = Evaluator(repo, IMPL_FILES)
            ev.concrete_iters = True
            return ev

        def run(ev):
            me = StructV(impl, {v: ListV(list(vector)) for v in vecs}, rest=SymObj("self", ("named", impl)))
            args = ev.sym_params(fi)
            args["self"] = me
            if "container_ty" in args:
                args["container_ty"] = "T"
            return ev.run_fn(fi, args)
        return explore(mk, run)

    def outcome(lf):
        if lf.panic or lf.unsupported:
            raise Unsupported(str(lf.panic or lf.unsupported))
        v = lf.value
        if isinstance(v, bool):
            return ("bool", v)
        if isinstance(v, Tag) and v.name == "None":
            return None
        if isinstance(v, Tag) and v.name == "Some" and isinstance(v.args[0], StructV) and "_id" in v.args[0].fields:
            return v.args[0].fields["_id"]
        raise Unsupported("lookup result not understood: " + vkey(v)[:80])

    def resid_key(lf):
        return tuple(sorted((a, str(v)) for a, v in lf.decisions.items()))

    def elem_atoms(key, i):
        """The part of an assignment that concerns element i: its own record instr<i>.* with the index stripped, plus the shared atoms."""
        out = []
        for a, v in key:
            if re.search(r"instr\d", a):
                if f"instr{i}" in a and not re.search(rf"instr(?!{i}\b)\d", a):
                    out.append((a.replace(f"instr{i}", "instr#"), v))
            else:
                out.append((a, v))
        return frozenset(out)
    try:
        base = {}
        for cls in "TNU":
            for lf in run_on([_elem(cls, 0)]):
                base.setdefault(cls, {})[elem_atoms(resid_key(lf), 0)] = outcome(lf)
        is_pred = any(isinstance(o, tuple) for d in base.values() for o in d.values())
        truthy = (lambda o: o == ("bool", True)) if is_pred else (lambda o: o is not None)

        def R(key, i, cls):
            """Does element i (of class cls) pass the residual filter under this assignment? None = not determined on this path."""
            mine = elem_atoms(key, i)
            own = {x for x in mine if "instr#" in x[0]}
            hits = [o for k, o in base[cls].items() if {x for x in k if "instr#" in x[0]} <= own and {x for x in k if "instr#" not in x[0]} <= {x for x in mine if "instr#" not in x[0]} | set()]
            # the single-element run may consult atoms this path never reached
            exact = [o for k, o in base[cls].items() if {x for x in k if "instr#" in x[0]} == own or ({x for x in k if "instr#" in x[0]} <= own and own)]
            cands = exact or hits
            vals = {truthy(o) for o in cands}
            if not own and len({truthy(o) for o in base[cls].values()}) > 1:
                return None
            return vals.pop() if len(vals) == 1 else None
        if not any(truthy(o) for o in base["T"].values()):
            return False, {"vector": ["T"], "why": "a lone instruction dedicated to the queried type is never found"}
        # the same residual filter in the dedicated and in the default pass (single elements, same assignment)
        def compatible(k1, k2):
            d1, d2 = dict(k1), dict(k2)
            return all(d2.get(a, v) == v for a, v in d1.items())
        for kT, oT in base["T"].items():
            for kN, oN in base["N"].items():
                # the two assignments describe the same situation whenever one refines the other: the answers must then agree
                if compatible(kT, kN) and (set(kT) <= set(kN) or set(kN) <= set(kT)) and truthy(oT) != truthy(oN):
                    return False, {"vector": ["T"], "vs": ["N"], "residual": dict(max(kT, kN, key=len)), "why": "the dedicated and the default pass apply different residual filters (kind / fallibility / parameters)"}
        if any(truthy(o) for o in base["U"].values()):
            return False, {"vector": ["U"], "why": "an instruction dedicated to another type is returned"}
        n = skipped = 0
        for ln in range(0, 4):
            for classes in itertools.product("TNU", repeat=ln):
                vec = [_elem(c, i) for i, c in enumerate(classes)]
                for lf in run_on(vec):
                    n += 1
                    got = outcome(lf)
                    key = resid_key(lf)
                    Rs = [R(key, i, c) if c != "U" else False for i, c in enumerate(classes)]
                    def want_for(rs):
                        if is_pred:
                            return ("bool", any(rs[i] for i, c in enumerate(classes) if c in "TN"))
                        for pass_cls in ("T", "N"):
                            for i, c in enumerate(classes):
                                if c == pass_cls and rs[i]:
                                    return i
                        return None
                    # residuals this path never consulted are free: the answer must be right for every completion
                    unknown = [i for i, r_ in enumerate(Rs) if r_ is None]
                    for bits in itertools.product((False, True), repeat=len(unknown)):
                        rs = list(Rs)
                        for i, b in zip(unknown, bits):
                            rs[i] = b
                        want = want_for(rs)
                        if got != want:
                            name = lambda o: None if o is None else (o[1] if isinstance(o, tuple) else f"#{o}:{classes[o]}")
                            return False, {"vector": list(classes), "passes_residual_filter": rs, "not_consulted_on_this_path": unknown, "expected": name(want), "found": name(got),
                                           "legend": "N = default instruction, T = dedicated to the queried type, U = dedicated to another type (declaration order); each element has its own residual (kind / fallibility / parameters)"}
        return True, {"vectors_evaluated": n}
    except (Unsupported, PanicReached, Inconclusive, KeyError, IndexError, AttributeError) as e:
        return None, f"accessor not evaluable on abstract vectors: {e!r}"[:200]


def r3(chk):
    repo = chk.repo
    chk.rule("R3", "accessor = find(R ∧ dedicated-to-this-type).or_else(find(R ∧ default)) over the same vector with the same residual filter R", floor=11)
    for impl, name in ACCESSORS:
        fi = repo.fn(ATTR, name, impl=impl)
        key = f"{impl}::{name}"
        sv, sd = lookup_semantics(repo, fi, impl)
        if sv is True:
            chk.ok("R3", key, ATTR, fi.line, detail={"decided_by": "small-scope semantics (all vectors of <= 3 abstract instructions, shared residual)", **sd})
            chk.unit("lookup_vectors_evaluated", sd.get("vectors_evaluated", 0))
            continue
        if sv is False:
            chk.bad("R3", key, ATTR, fi.line, "lookup does not return the first instruction dedicated to the queried type, else the first default one (counterexample vector in declaration order)",
                    expected="first T, else first N, else None; same residual filter in both passes", found=sd)
            continue
        # not evaluable on abstract vectors: fall back to recognising the shape
        # locate find(..).or_else(|| ..find(..))
        ors = [m for m in method_calls(fi.body, "or_else") if m["recv"]["k"] == "MethodCall" and m["recv"]["method"] == "find"]
        if len(ors) != 1:
            # recognised-bad shape: ONE pass whose predicate accepts both a default and a dedicated instruction (declaration order decides,
            # a default written first shadows the dedicated one); any other shape is not understood -> INCONCLUSIVE, never a violation
            finds = [m for m in method_calls(fi.body, "find") if m["args"] and m["args"][0]["k"] == "Closure"]
            verdict = None
            if len(finds) == 1 and not list(method_calls(fi.body, "or")) and not [n for n in walk(fi.body) if n["k"] in ("For", "While", "Loop", "Match")]:
                envn = {p: ("named", "?") for p in fi.params}
                if "kind" in envn:
                    envn["kind"] = ("named", "Kind")
                if "fallible" in envn:
                    envn["fallible"] = ("bool",)
                try:
                    t = classify(pred_table(repo, finds[0]["args"][0], envn))
                    acc_default = any(val and ct is False for ct, eq, resid, val in t)
                    acc_dedicated = any(val and ct is True and eq is True for ct, eq, resid, val in t)
                    if acc_default and acc_dedicated:
                        verdict = False
                except Exception:
                    verdict = None
            if verdict is False:
                chk.bad("R3", key, ATTR, fi.line, "single-pass lookup accepts default and dedicated instructions alike: the first one written wins, a dedicated instruction no longer takes precedence",
                        expected="find(dedicated).or_else(|| find(default))", found=render(fi.body)[:160])
            else:
                chk.inconc("R3", f"{key}: accessor is not of a recognised shape (find(dedicated).or_else(|| find(default))): " + render(fi.body)[:120])
            continue
        o = ors[0]
        f1 = o["recv"]
        cl = o["args"][0] if o["args"] else None
        if cl is None or cl["k"] != "Closure" or cl["body"]["k"] != "MethodCall" or cl["body"]["method"] != "find":
            chk.bad("R3", key, ATTR, fi.line, "or_else branch is not a find over the same vector", found=render(cl)[:160] if cl else None)
            continue
        f2 = cl["body"]
        same_base = render(f1["recv"]) == render(f2["recv"])
        envn = {p: ("named", "?") for p in fi.params}
        if "kind" in envn:
            envn["kind"] = ("named", "Kind")
        if "fallible" in envn:
            envn["fallible"] = ("bool",)
        t1 = classify(pred_table(repo, f1["args"][0], envn))
        t2 = classify(pred_table(repo, f2["args"][0], envn))
        chk.unit("predicate_leaves", len(t1) + len(t2))
        # P1 true only for (Some, eq); P2 true only for None
        bad = []
        r1 = set()
        r2 = set()
        for ct, eq, resid, val in t1:
            if val and not (ct is True and eq is True):
                bad.append(("dedicated branch accepts", ct, eq, resid))
            if ct is True and eq is True:
                r1.add((resid, val))
        for ct, eq, resid, val in t2:
            if val and ct is not False:
                bad.append(("default branch accepts", ct, eq, resid))
            if ct is False:
                r2.add((resid, val))

        def accepts(rs):
            return sorted(str(r) for r, v in rs if v)
        same_r = accepts(r1) == accepts(r2) and bool(accepts(r1))
        chk.expect("R3", key, same_base and not bad and same_r, ATTR, fi.line, "dedicated and default lookups disagree (vector, counterpart test or residual filter)",
                   expected="same vector; dedicated: Some∧==ty∧R; default: None∧R", found={"same_vector": same_base, "bad": bad[:3], "R_dedicated": accepts(r1), "R_default": accepts(r2)})
    for impl, name in PREDICATES:
        fi = repo.fn(ATTR, name, impl=impl)
        key = f"{impl}::{name}"
        sv, sd = lookup_semantics(repo, fi, impl)
        if sv is True:
            chk.ok("R3", key, ATTR, fi.line, detail={"decided_by": "small-scope semantics", **sd})
            continue
        if sv is False:
            chk.bad("R3", key, ATTR, fi.line, "predicate does not hold exactly when a default instruction or one dedicated to the queried type passes the residual filter", found=sd)
            continue
        anys = list(method_calls(fi.body, "any"))
        if len(anys) != 1 or anys[0]["args"][0]["k"] != "Closure":
            chk.inconc("R3", f"{key}: predicate is neither evaluable on abstract vectors ({sd}) nor a single .any(closure)")
            continue
        t = classify(pred_table(repo, anys[0]["args"][0], {p: ("named", "?") for p in fi.params}))
        bad = []
        acc_def, acc_ded = set(), set()
        for ct, eq, resid, val in t:
            if val and ct is True and eq is not True:
                bad.append(("accepts an instruction dedicated to another type", resid))
            if ct is False:
                acc_def.add((resid, val))
            if ct is True and eq is True:
                acc_ded.add((resid, val))
        okd = sorted(str(r) for r, v in acc_def if v)
        oke = sorted(str(r) for r, v in acc_ded if v)
        if not bad and not okd and not oke:
            chk.inconc("R3", f"{key}: predicate closure not decidable from its text (helper calls) and not evaluable on abstract vectors ({sd})")
            continue
        chk.expect("R3", key, not bad and okd == oke and bool(okd), ATTR, fi.line, "parent predicate must hold exactly for default-or-dedicated-to-this-type", found={"bad": bad, "default": okd, "dedicated": oke})


def run(chk):
    chk.guard("R1", lambda: r1_r2(chk))
    chk.guard("R3", lambda: r3(chk))
    from .c06 import raw_vector_rule
    chk.rule("R4", "expand.rs reads member/type instruction vectors only through the per-conversion accessors", floor=1)
    chk.guard("R4", lambda: raw_vector_rule(chk, "R4", member_only=True))
    from .c12 import import_parse_contracts
    chk.guard("R5", lambda: import_parse_contracts(chk, "R5"))
    def r6():
        # which instruction wins is decided per conversion only if the chain is entered with the CURRENT conversion's kind and fallibility
        # at every call site of expand.rs (decided by C06.R2; imported for the lookup-chain entry points)
        from ..core import Check
        from . import c06
        sub = Check("C06", chk.repo, chk.tier)
        sub.guard("R2", lambda: c06.r2(sub))
        chk.rule("R6", "every call of applicable_attr / get_for_kind / ghost in expand.rs passes the current conversion's kind and fallibility", floor=6)
        for r_, why in sub.inconclusive:
            if re.search(r"applicable_attr|get_for_kind|:ghost#|field_attr", why):
                chk.inconc("R6", why)
        for i in sub.instances:
            if i.rule == "R2" and re.search(r":(applicable_attr|applicable_field_attr|get_for_kind|ghost|field_attr|field_attr_core)#\d+\((kind|fallible)\)", i.key):
                if i.ok:
                    chk.ok("R6", "call:" + i.key, i.file, i.line)
                else:
                    chk.bad("R6", "call:" + i.key, i.file, i.line, i.what, i.expected, i.found)
    chk.guard("R6", r6)

    def r7():
        # a context derived for a nested rendering (the per-variant struct) must carry the SAME conversion: kind and fallibility are
        # inherited (`..*ctx`) or copied from the enclosing context, never fixed
        from ..tables import EXPAND
        chk.rule("R7", "every ImplContext built outside data_type_impl inherits kind and fallibility from the context it is derived from", floor=1)
        n = 0
        for fi in chk.repo.fns(EXPAND):
            if fi.name == "data_type_impl":
                continue
            k = 0
            for node in walk(fi.body):
                if node["k"] != "Struct" or not (node.get("path") or "").replace(" ", "").endswith("ImplContext"):
                    continue
                n += 1
                rest = render(node["rest"]).replace(" ", "") if node.get("rest") else None
                inherits = rest is not None and re.fullmatch(r"\*?(\w+_)?ctx", rest) is not None
                for fld in ("kind", "fallible"):
                    ex = [f_["expr"] for f_ in node["fields"] if f_["member"] == fld]
                    key = f"{fi.qual}:ImplContext#{k}.{fld}"
                    if not ex:
                        chk.shape("R7", key, inherits, rest is None, EXPAND, node["line"], what="derived context does not take this field from the enclosing context", found=rest)
                        continue
                    t = render(ex[0]).replace(" ", "")
                    good = re.fullmatch(r"\*?&?(\w+_)?ctx\." + fld + r"(\.clone\(\))?", t) is not None
                    bad = re.fullmatch(r"true|false|Kind::\w+", t) is not None
                    chk.shape("R7", key, good, bad, EXPAND, node["line"], what="derived context fixes the conversion's " + fld + " instead of inheriting it: member instructions inside are then looked up for another conversion", expected=f"ctx.{fld} / ..*ctx", found=t)
                k += 1
        if n == 0:
            chk.ok("R7", "no-derived-contexts", EXPAND, 1, nontrivial=False)
    chk.guard("R7", r7)




def _recorded():
    from ..core import load_known
    return {(e["property"], e["key"]) for e in load_known() if e.get("status") == "known"}


def import_lookup_contracts(chk, rule, accessors, with_chain=True, desc=None):
    """Other properties treat the instruction lookups as opaque summaries; their contracts (dedicated-then-default with one residual filter;
    the applicable_attr chain) are imported here as a rule of the importing property."""
    from ..core import Check
    sub = Check("C05", chk.repo, chk.tier)
    sub.guard("R3", lambda: r3(sub))
    if with_chain:
        sub.guard("R1", lambda: r1_r2(sub))
    chk.rule(rule, desc or "contracts of the instruction lookups this property's tables summarise (dedicated-then-default, per-kind filter, lookup chain)", floor=max(1, len(accessors)))
    for r_, why in sub.inconclusive:
        chk.inconc(rule, why)
    for i in sub.instances:
        take = (i.rule == "R3" and any(i.key.endswith("::" + a) for a in accessors)) or (with_chain and i.rule in ("R1", "R2"))
        if not take:
            continue
        if i.ok:
            chk.ok(rule, "lookup:" + i.key, i.file, i.line)
        elif ("C05", i.key) in _recorded():
            continue  # a defect already recorded (and printed) under C05
        else:
            chk.bad(rule, "lookup:" + i.key, i.file, i.line, i.what, i.expected, i.found)

