"""The impl table: for every (kind, fallible, post-init?) cell, the complete impl-item template that
`quote_trait` selects, with every hole resolved to its provenance (partial evaluation of
quote_trait with the skeleton fns inlined and everything else summarised), then parsed by syn
after holes are replaced by typed placeholders (Rust's grammar is the oracle, DESIGN A.2)."""
import re

from .pe import Evaluator, Toks, explore, vkey
from .quote import CLOSE, templates_in
from .src import walk, Inconclusive, parse_snippets
from .tables import EXPAND, IMPL_FILES

# provenance suffix -> (role, placeholder source text)
PLACEHOLDERS = [
    (r"\.impl_gens$", "impl_gens", "<__G>"),
    (r"\.these_gens$", "these_gens", "<__THESE>"),
    (r"\.those_gens$", "those_gens", "<__THOSE>"),
    (r"\.r\?$", "r", "&"),
    (r"\.src$", "src", "__Src"),
    (r"\.dst$", "dst", "__Dst"),
    (r"\.where_clause\?$", "where_clause", "where __W: __B"),
    (r"\.impl_attr\?$", "impl_attr", "#[__impl_attr]"),
    (r"\.inner_attr\?$", "inner_attr", "#![__inner_attr]"),
    (r"\.attr\?$", "attr", "#[__attr]"),
    (r"err_ty!\.path$", "err_ty_path", "__Err"),
    (r"err_ty!\.generics\??$", "err_ty_generics", "<__ERRG>"),
    (r"^struct_pre_init\(.*\)\??$", "pre_init", "{ __pre_init }"),
    (r"^main_code_block_ok\(.*\)$", "init_ok", "{ __init_ok }"),
    (r"^main_code_block\(.*,\s*true\)$", "init_ok", "{ __init_ok }"),
    (r"^main_code_block\(.*\)$", "init", "{ __init }"),
    (r"^struct_post_init\(.*\)[!?]?$", "post_init", "{ __post_init }"),
]


def role_of(path):
    for rx, role, ph in PLACEHOLDERS:
        if re.search(rx, path):
            return role, ph
    return None, None


def skeleton_fn_names(repo):
    names = []
    for fi in repo.fns(EXPAND):
        for _m, tpl in templates_in(fi.body):
            if any(t["t"] == "ident" and t["v"] == "impl" for t in tpl):
                names.append(fi.name)
                break
    return names


def assemble(toks, unknown):
    """Symbolic tokens -> Rust source with placeholders; collects unknown-provenance holes."""
    out = []
    for t in toks:
        k = t[0]
        if k == "lit":
            out.append((t[1], len(t) > 2 and t[2]))
        elif k == "group":
            out.append((t[1], False))
            out.extend(assemble_raw(t[2], unknown))
            out.append((CLOSE[t[1]], False))
        elif k in ("sym", "opt"):
            path = t[1] + ("?" if k == "opt" else "")
            role, ph = role_of(path)
            if role is None:
                unknown.append(path)
                ph = "__UNKNOWN"
            out.append((ph, False))
        else:
            unknown.append(str(t))
            out.append(("__UNKNOWN", False))
    return out


def assemble_raw(toks, unknown):
    return assemble(toks, unknown)


def to_src(parts):
    s = ""
    for i, (txt, joint) in enumerate(parts):
        s += txt
        nxt = parts[i + 1][0] if i + 1 < len(parts) else ""
        if joint and nxt and not (nxt[0].isalnum() or nxt[0] in "_#{(["):
            continue
        s += " "
    return s


def roles_in(toks, acc=None):
    acc = [] if acc is None else acc
    for t in toks:
        if t[0] == "group":
            roles_in(t[2], acc)
        elif t[0] in ("sym", "opt"):
            path = t[1] + ("?" if t[0] == "opt" else "")
            acc.append((role_of(path)[0], path))
    return acc


def impl_table(repo):
    """Returns (cells, info). cells: list of dict(kind, fallible, post_init, toks, src, parsed, unknown, leaf)."""
    skels = skeleton_fn_names(repo)
    if len(skels) < 1:
        raise Inconclusive("no skeleton fn (quote! with a literal `impl`) found in expand.rs")
    fi = repo.fn(EXPAND, "quote_trait")
    all_fns = {f.name for f in repo.fns(EXPAND)} | {f.name for f in repo.all_fns(IMPL_FILES)}
    opaque = {n for n in all_fns if n not in skels and n != "quote_trait"}
    opaque -= {"is_from", "is_ref", "is_into_existing", "is_variant", "maybe"}
    # small token-fragment helpers (straight-line code around one quote!, no loops, no calls of other repo functions) are evaluated
    # in place, so that extracting e.g. the error-type tokens into a helper does not hide them from the skeleton table
    for f_ in repo.fns(EXPAND):
        if f_.name in skels or f_.name == "quote_trait" or f_.name not in opaque:
            continue
        nodes = list(walk(f_.body))
        if len(f_.body.get("stmts", [])) <= 8 and not any(n["k"] in ("For", "While", "Loop", "Closure") for n in nodes) and \
                not any(n["k"] == "Call" and n["func"]["k"] == "Path" and n["func"]["segs"][-1] in all_fns for n in nodes) and \
                not any(n["k"] == "MethodCall" and n["method"] in all_fns and n["method"] not in ("is_from", "is_ref", "is_into_existing") for n in nodes) and \
                "TokenStream" in (f_.node["sig"].get("output") or "") and sum(1 for n in nodes if n["k"] == "Macro" and n["last"] == "quote") >= 1:
            opaque.discard(f_.name)

    def mk():
        return Evaluator(repo, IMPL_FILES, opaque=opaque)

    leaves = explore(mk, lambda ev: ev.run_fn(fi, ev.sym_params(fi)))
    cells = []
    reqs = []
    for lf in leaves:
        kind = lf.get("ctx.kind")
        fallible = lf.get("ctx.fallible")
        post = None
        for a, v in lf.decisions.items():
            if a.startswith("struct_post_init("):
                post = (v == "Some")
        cell = {"kind": kind, "fallible": fallible, "post_init": post, "leaf": lf, "decisions": dict(lf.decisions)}
        if lf.panic or lf.unsupported or not isinstance(lf.value, Toks):
            cell["toks"] = None
        else:
            unknown = []
            parts = assemble(lf.value.toks, unknown)
            cell["toks"] = lf.value.toks
            cell["src"] = to_src(parts)
            cell["unknown"] = unknown
            cell["roles"] = roles_in(lf.value.toks)
            reqs.append({"as": "file", "src": cell["src"]})
        cells.append(cell)
    res = parse_snippets(reqs) if reqs else []
    i = 0
    for c in cells:
        if c.get("toks") is not None:
            c["parsed"] = res[i]
            i += 1
    return cells, {"skeleton_fns": skels, "quote_trait": fi}


def fn_of_impl(impl):
    return [it for it in impl["items"] if it["k"] == "Fn"]


def assoc_types(impl):
    return [it for it in impl["items"] if it["k"] == "AssocType"]


def body_builders(repo):
    """The two flavours of the body builder as (label, fn, preset arguments): the pair main_code_block / main_code_block_ok, or one
    main_code_block with a boolean `wrap in Ok` parameter."""
    from .tables import EXPAND
    f1 = repo.fn(EXPAND, "main_code_block")
    f2 = repo.fn_opt(EXPAND, "main_code_block_ok")
    if f2 is not None:
        return [("main_code_block", f1, {}), ("main_code_block_ok", f2, {})]
    bools = [i["pat"].get("name") for i in f1.node["sig"]["inputs"] if not i.get("self") and (i.get("ty") or "").replace(" ", "") == "bool"]
    if len(bools) == 1:
        return [("main_code_block", f1, {bools[0]: False}), ("main_code_block_ok", f1, {bools[0]: True})]
    raise Inconclusive("body builders: neither main_code_block_ok nor a boolean flavour parameter of main_code_block found")
