"""C11 — generics, lifetimes and where-clauses are carried so the impl type-checks."""
import re

from ..pe import Clos, Evaluator, StructV, SymObj, Tag, Toks, explore, show_toks, vkey
from ..skeleton import impl_table
from ..src import Inconclusive, method_calls, render, walk
from ..tables import ATTR, EXPAND, IMPL_FILES, direction, is_ref_kind, kinds

LEVEL = "other"
EXPLANATION = (
    "R1 (slots): in all 12 x post-init skeleton cells the header is `impl <impl generics> Trait<[&]Counterpart <counterpart args>> for [&]Own <own args> <where>` and the "
    "fn signature repeats exactly those types (read from syn's parse of the skeleton). R2 (argument-form provenance): the hole after the own type must be fed by the "
    "ARGUMENT form of the generics (split_for_impl().1 / TypeGenerics) and the hole after `impl` by the IMPL form; `Generics::to_token_stream()` in a type position "
    "keeps bounds and defaults (`A<T: Clone>`), and the deriving type's own where-clause must reach the impl. R3: the where_clause slot is fed by the dedicated-then-default "
    "lookup for THIS counterpart. R4 ('o2o table): partial evaluation of get_quote_trait_params over (kind x lifetimes present): 'o2o is declared iff the conversion is "
    "by-ref and the relevant lifetime list is non-empty, bounded by the own lifetimes (From) / the counterpart's (Into), and the `&` hole is `&'o2o` under exactly that "
    "condition. R5: the missing-lifetime predicate declares every counterpart lifetime that is not among the own lifetime parameters (truth table of the `.all()` closure).")
NOT_DECIDED = ["that rustc's borrow checker accepts the 'o2o scheme for every shape", "generic arguments inside user expressions"]


def run(chk):
    repo = chk.repo
    fi = repo.fn(EXPAND, "get_quote_trait_params")

    def r1():
        from ..core import Check
        from . import c04
        chk.rule("R1", "generic slots of every skeleton header and signature (impl generics, counterpart args on the counterpart, own args on the own type, where clause)", floor=30)
        sub = Check("C04", repo, chk.tier)
        c04.r5_r6_impls(sub)
        for i in sub.instances:
            if i.rule == "R6" and ("/header" in i.key or "/sig" in i.key):
                (chk.ok if i.ok else chk.bad)("R1", i.key, i.file, i.line, **({} if i.ok else {"what": i.what, "expected": i.expected, "found": i.found}))
    chk.guard("R1", r1)

    def lit_fields():
        lits = [n for n in walk(fi.body) if n["k"] == "Struct" and n["path"].endswith("QuoteTraitParams")]
        if len(lits) != 1:
            raise Inconclusive("get_quote_trait_params: QuoteTraitParams literal not found")
        return {f["member"]: f["expr"] for f in lits[0]["fields"]}, lits[0]["line"]

    def resolve(e):
        """Follow a plain local binding one step (let x = <init>;) for provenance."""
        if e["k"] == "Path" and len(e["segs"]) == 1:
            for n in walk(fi.body):
                if n["k"] == "Let" and n["pat"].get("name") == e["segs"][0] and "init" in n:
                    return n["init"]
        return e

    def r2():
        chk.rule("R2", "own-type hole fed by the argument form, impl hole by the impl form of the generics; the own where-clause is carried", floor=4)
        st, line = lit_fields()
        these = render(resolve(st["these_gens"])).replace(" ", "")
        implg = render(resolve(st["impl_gens"])).replace(" ", "")
        those = render(resolve(st["those_gens"])).replace(" ", "")
        arg_form = bool(re.search(r"split_for_impl\(\)\.1|ty_generics|TypeGenerics", these))
        raw = these.endswith("get_generics().to_token_stream()") or these.endswith("generics.to_token_stream()")
        chk.shape("R2", "these_gens/argument-form", arg_form, raw and not arg_form, EXPAND, line,
                  "the deriving type's generics are interpolated after the type name in declaration form: `for A<T: Clone>` / `A<const N: usize = 3>` (bounds and defaults are not valid in a type position)",
                  expected="<split_for_impl().1>", found=these)
        impl_form = bool(re.search(r"split_for_impl\(\)\.0|impl_generics|ImplGenerics", implg))
        chk.shape("R2", "impl_gens/impl-form", impl_form, implg.endswith("impl_gens.to_token_stream()") and not impl_form, EXPAND, line,
                  "impl generics are emitted in declaration form: parameter defaults (`const N: usize = 3`, `T = X`) are not allowed on impl blocks", expected="<split_for_impl().0>", found=implg)
        chk.shape("R2", "those_gens/argument-form", those == "ctx.struct_attr.ty.generics.to_token_stream()", "get_generics()" in those, EXPAND, line,
                  "counterpart hole must be the counterpart path's own angle-bracketed arguments", found=those)
        wc = render(st["where_clause"]).replace(" ", "")
        own_where = "where_clause" in wc and re.search(r"get_generics\(\)\.where_clause|split_for_impl\(\)\.2|generics\.where_clause", render(fi.body).replace(" ", "")) is not None
        chk.shape("R2", "own-where-clause", own_where, not own_where and "where_attr(" in wc, EXPAND, line,
                  "the deriving type's own `where` clause is not carried into the impl (`struct A<T> where T: Clone` yields an impl that does not type-check)", found=wc[:120])
    chk.guard("R2", r2)

    def r3():
        chk.rule("R3", "where_clause slot = `where <predicates>` of the where_clause instruction looked up for this counterpart", floor=2)
        st, line = lit_fields()
        wc = render(st["where_clause"]).replace(" ", "")
        ok = wc.startswith("input.get_attrs().where_attr(&ctx.struct_attr.ty).map(")
        chk.shape("R3", "where_clause/lookup", ok, "where_attrs" in wc or ("where_attr(" in wc and "&ctx.struct_attr.ty" not in wc), EXPAND, line, "where clause is not looked up for the current counterpart", found=wc[:120])
        tpls = [m for m in walk(st["where_clause"]) if m["k"] == "Macro" and m["last"] == "quote"]
        ok = len(tpls) == 1 and tpls[0]["src"].replace(" ", "") == "where#where_clause"
        chk.shape("R3", "where_clause/template", ok, len(tpls) == 1 and "where" not in tpls[0]["src"], EXPAND, line, "slot must be `where <predicates>`", found=[t["src"] for t in tpls])
    chk.guard("R3", r3)

    def r4():
        chk.rule("R4", "'o2o declared iff by-ref and the lifetime list is non-empty; bounded by own (From) / counterpart (Into) lifetimes; `&` hole is `&'o2o` under the same condition", floor=12)

        def mk():
            e = Evaluator(repo, IMPL_FILES, shallow=True)
            e.skip_loops = True
            return e
        leaves = explore(mk, lambda ev: ev.run_fn(fi, ev.sym_params(fi)))
        chk.unit("o2o_table_leaves", len(leaves))
        seen = set()
        for lf in leaves:
            k = lf.decisions.get("ctx.kind")
            if lf.panic or lf.unsupported or not isinstance(lf.value, StructV):
                chk.inconc("R4", f"get_quote_trait_params[{k}]: {lf.panic or lf.unsupported}")
                continue
            empties = [(a, v) for a, v in lf.decisions.items() if a.endswith(".is_empty()")]
            pushes = [e for e in lf.effects if e[1] == "push" and "'o2o" in str(e[2])]
            r = vkey(lf.value.fields.get("r"))
            is_ref = is_ref_kind(k)
            nonempty = bool(empties) and empties[-1][1] is False
            src = empties[-1][0] if empties else ""
            key = f"o2o[{k},lifetimes={'some' if nonempty else 'none'}]"
            if key in seen:
                continue
            seen.add(key)
            if not is_ref:
                ok = not pushes and r == "None"
                exp = "no 'o2o, no &"
            elif nonempty:
                want_src = "GenericParam::Lifetime" if direction(k) == "From" else "GenericArgument::Lifetime"
                bound = str(pushes[0][2]) if pushes else ""
                ok = len(pushes) == 1 and want_src in bound and r == "Some(«&'o2o»)" and want_src in src
                # the list repeated after `'o2o:` must be the very list whose emptiness was tested (an empty bound list after the colon is
                # accepted by syn 2 and rejected - parse_quote! panics - by syn 1)
                mrep = re.search(r"rep:(.*?)/\+", bound)
                tested = re.sub(r"\.is_empty\(\)$", "", src)
                if ok and mrep and tested and mrep.group(1).strip() != tested.strip():
                    chk.bad("R4", key + "/bound-list", EXPAND, fi.line, "the lifetime list interpolated after `'o2o:` is not the list tested for emptiness: it can be empty (`'o2o: `), which syn 2 parses and syn 1 rejects with a panic",
                            expected=tested[-80:], found=mrep.group(1)[-80:])
                exp = f"'o2o: <{'own' if direction(k) == 'From' else 'counterpart'} lifetimes>, &'o2o"
            else:
                ok = not pushes and r == "Some(«&»)"
                exp = "plain &"
            chk.expect("R4", key, ok, EXPAND, fi.line, "'o2o / & table", expected=exp, found={"r": r, "push": [str(p[2])[:90] for p in pushes], "emptiness_of": src[-70:]})
        for k in kinds(repo):
            chk.expect("R4", f"covered[{k}]", any(s_.startswith(f"o2o[{k},") for s_ in seen), EXPAND, fi.line, "kind not covered by the table")
    chk.guard("R4", r4)

    def r5():
        chk.rule("R5", "every counterpart lifetime that is not an own lifetime parameter gets declared (predicate truth table) and the loop ranges over all counterpart lifetimes", floor=4)
        loops = [n for n in walk(fi.body) if n["k"] == "For"]
        if len(loops) != 1:
            raise Inconclusive("get_quote_trait_params: expected one loop over the counterpart lifetimes")
        lp = loops[0]
        it = render(lp["iter"]).replace(" ", "")
        chk.shape("R5", "loop-range", it == "those_lts", it not in ("those_lts", "those_lts.iter()", "&those_lts") and "those_lts" in it, EXPAND, lp["line"], "loop must visit every counterpart lifetime", found=it)
        alls = [m for m in method_calls(lp["body"], "all") if m["args"] and m["args"][0]["k"] == "Closure"]
        anys = [m for m in method_calls(lp["body"], "any") if m["args"] and m["args"][0]["k"] == "Closure"]
        if len(alls) + len(anys) != 1:
            raise Inconclusive("missing-lifetime test is not a single all()/any() over the impl generics")
        m = (alls + anys)[0]
        is_all = bool(alls)
        cl = m["args"][0]
        pre = [x["method"] for x in method_calls(m["recv"]) if x["method"] in ("filter", "filter_map", "map", "flat_map", "skip", "take", "rev")]
        if pre:
            raise Inconclusive(f"missing-lifetime test runs over an adapted iterator ({pre}); the predicate table of this rule assumes the raw generic parameters")

        def mk():
            return Evaluator(repo, IMPL_FILES, shallow=True)

        def run(ev):
            env = {"lt": SymObj("lt", ("named", "Lifetime")), "impl_gens": SymObj("impl_gens", ("named", "Generics"))}
            c = Clos(cl["params"], cl["body"], env, ev)
            return ev.truth(ev.call_closure(c, [SymObj("param", ("named", "?"))]))
        for lf in explore(mk, run):
            d = lf.decisions
            is_lt = [v for a, v in d.items() if "GenericParam::Lifetime" in a]
            same = [v for a, v in d.items() if "==" in a and "lt" in a]
            lt = bool(is_lt and is_lt[0])
            if lf.panic or lf.unsupported:
                chk.inconc("R5", f"predicate: {lf.panic or lf.unsupported}")
                continue
            # for all(): the element must NOT be the sought lifetime; a non-lifetime parameter never is
            if is_all:
                exp = (not (same and same[0])) if lt else True
            else:
                exp = bool(same and same[0]) if lt else False
            key = f"missing-lifetime-predicate[{'lifetime' if lt else 'type-or-const'}{',same' if (lt and same and same[0]) else (',other' if lt else '')}]"
            chk.expect("R5", key, lf.value == exp, EXPAND, cl["line"],
                       "a non-lifetime generic parameter makes the test conclude the counterpart lifetime is already declared: `#[from(B<'a>)] struct A<T>` yields an impl that uses an undeclared 'a",
                       expected=exp, found=lf.value)
        src = render(lp["body"]).replace(" ", "")
        chk.shape("R5", "declare-when-missing", "ifmissing_lt{" in src and "impl_gens.params.push(" in src, "impl_gens.params.push(" not in src, EXPAND, lp["line"], "a missing lifetime must be added to the impl generics", found=src[-160:])
    chk.guard("R5", r5)
    from .c05 import import_lookup_contracts
    chk.guard("R6", lambda: import_lookup_contracts(chk, "R6", ["where_attr"], with_chain=False))

    def typepath_contract():
        from ..core import Check
        from . import c04
        sub = Check("C04", chk.repo, chk.tier)
        sub.guard("R8", lambda: c04.r8_typepath_ctor(sub))
        chk.rule("R7", "the lifetimes / generic arguments an impl header declares are those of TypePath.generics: the split of the counterpart path (C04.R8)", floor=2)
        for r_, w_ in sub.inconclusive:
            chk.inconc("R7", w_)
        for i in sub.instances:
            if i.rule == "R8":
                if i.ok:
                    chk.ok("R7", "typepath:" + i.key, i.file, i.line)
                else:
                    chk.bad("R7", "typepath:" + i.key, i.file, i.line, i.what, i.expected, i.found)
    chk.guard("R7", typepath_contract)
