"""C16 — expansion never panics: every input yields impls or diagnostics."""
import os
import re

from ..linetables import OPAQUE, TRANSPARENT, _cached
from ..panics import analyse, fallback_standalone, sites_of
from ..pe import Evaluator, ListV, Tag
from ..src import Inconclusive, calls, method_calls, render, walk, walk_with_parents
from ..tables import AST, ATTR, EXPAND, IMPL_FILES, VALIDATE

TECHNIQUE = "static analysis: syntactic enumeration of panic-capable sites + reachability by partial evaluation over root regions + discharge table with machine-checked witnesses; thorough tier adds a rustc_private MIR driver (resolved callees / Assert terminators) as completeness cross-check"
LEVEL = "other"
EXPLANATION = (
    "Every panic-capable site of non-test o2o-impl code is enumerated from the syntax tree (panic!/unreachable!/todo!/assert*, unwrap/expect, index "
    "expressions, subtractions, parse_quote!/format_ident!). Reachability is decided by partial evaluation over ROOT REGIONS: every closure, every loop "
    "body (one iteration), and the body of every function that is a region boundary or has no caller, with the helpers of expand.rs inlined in strict "
    "mode under the guards that enclose them, and only the instruction lookups of attr.rs summarised. A site that some region executes and that no leaf "
    "of any region panics at is discharged (this covers local guards `x.is_some() && x.unwrap()`, `contains_key -> get().unwrap()`, caller guards such as "
    "`render_parent` only under `!is_from`, Ghost never reaching name/action helpers). A site with a panicking leaf is an OBLIGATION keyed by "
    "site + root region (+ member-data case); it must be discharged by the table in this file (G1 library invariant, G2 validation rule — with a machine-"
    "checked witness — or G3 structural invariant with witness) or be a recorded known finding; anything else is a violation with the path condition of "
    "the panicking leaf as replay. Index/arith/macro sites have dedicated rules (total Index<&Enum> impls with constant slots < N, position-bounded indices, f{} idents). "
    " R6 imports C11.R4's bound-list rule (parse_quote! of an empty lifetime bound list panics under syn 1). Thorough tier: R5 cross-checks the enumeration against the type-resolved MIR of both feature configurations (driver in /verif/mir).")
NOT_DECIDED = ["panics inside syn / quote / proc-macro2 on well-typed calls (trusted base)", "stack overflow on pathologically deep input", "arithmetic overflow of usize counters"]


def norm_detail(d):
    """Site text used in keys: closure arguments and explicit `.iter()` steps are dropped (renaming a closure parameter or borrowing the
    collection instead of holding its iterator is the same site)."""
    out, i, n = [], 0, len(d)
    while i < n:
        ch = d[i]
        if ch == "|" and (i == 0 or d[i - 1] in "(, ") and (i == 0 or d[i - 1] != "|"):
            # closure argument: skip to the end of the enclosing argument (matching parenthesis depth)
            depth, j = 0, i
            while j < n:
                if d[j] in "([{":
                    depth += 1
                elif d[j] in ")]}":
                    if depth == 0:
                        break
                    depth -= 1
                elif d[j] == "," and depth == 0 and j > i + 1 and d.count("|", i, j) >= 2:
                    break
                j += 1
            out.append("|_|..")
            i = j
            continue
        out.append(ch)
        i += 1
    return "".join(out).replace(".iter()", "").replace(".into_iter()", "")


def site_key(fi, s, ordinal):
    return f"{fi.qual}:{norm_detail(s['detail'])[:70]}" + (f"#{ordinal}" if ordinal else "")


def subcase(dec):
    sub = None
    for a, v in dec.items():
        if a.endswith(".field_data") and v in ("Field", "GhostData", "ParentChildField"):
            sub = v
    nested = any(a == "field_ctx!.1" and v == "Some" for a, v in dec.items())
    if nested:
        sub = (sub + "/" if sub else "") + "nested-hint"
    return sub


# ------------------------------------------------------------------ witnesses for table entries
def w_c15_class(chk, names):
    from ..core import Check
    from . import c15
    sub = Check("C15", chk.repo, chk.tier)
    sub.guard("R5", lambda: c15.r5(sub))
    sub.guard("R1", lambda: c15.r1(sub))
    sub.guard("R9", lambda: c15.r9(sub))
    ok = True
    for n in names:
        hit = [i for i in sub.instances if (i.key.startswith(n[:-1]) if n.endswith("*") else i.key == n)]
        if not hit and any(n.rstrip("*") in why for _r, why in sub.inconclusive):
            return None  # the validator was refactored into a shape the guard-set rule does not order
        ok = ok and bool(hit) and all(i.ok for i in hit)
    return ok


def w_error_instrs(chk, getter, enum_name, validator):
    """Variants that can reach error_instrs = all variants - those matched before the catch-all; validator's arms must name exactly those."""
    repo = chk.repo
    fi = repo.fn(ATTR, getter)
    variants = {v["name"] for v in repo.enum(ATTR, enum_name)["variants"]}
    handled = set()
    catch_all = False
    for n in walk(fi.body):
        if n["k"] == "Match":
            arms = n["arms"]
            if any(a["pat"]["k"] == "PWild" and "error_instrs.push" in render(a["body"]) for a in arms):
                catch_all = True
                for a in arms:
                    if a["pat"]["k"] != "PWild":
                        for m in re.findall(enum_name + r"::(\w+)", render_pat_s(a["pat"])):
                            handled.add(m)
    if not catch_all:
        return False
    rest = variants - handled
    fv = repo.fn(VALIDATE, validator)
    named = set()
    for n in walk(fv.body):
        if n["k"] == "Match":
            for a in n["arms"]:
                for m in re.findall(enum_name + r"::(\w+)", render_pat_s(a["pat"])):
                    named.add(m)
    return rest <= named and bool(rest)


def render_pat_s(p):
    from ..src import render_pat
    return render_pat(p)


def w_struct_init_block_guard(chk):
    """struct_init_block returns before rendering when a non-From conversion has hint Unit (so '2' is unreachable at top level).
    Semantic: read from the decision table of struct_init_block itself."""
    from ..linetables import fn_table
    from ..tables import direction
    T = fn_table(chk.repo, "struct_init_block", cache_name="fn_struct_init_block_own")
    seen = 0
    for lf in T["leaves"]:
        k = lf.get("ctx.kind")
        if k and direction(k) != "From" and lf.get("ctx.struct_attr.type_hint") == "Unit":
            seen += 1
            if lf.kind != "ok" or lf.toks is None or lf.toks:
                return False
    return True if seen >= 4 else None


def w_ghost_groups(chk):
    fi = chk.repo.fn(EXPAND, "struct_init_block")
    src = render(fi.body).replace(" ", "")
    ok = 'group_paths.insert("".into(),0)' in src and "res.1.then_some(res.0)" in src and "FieldData::GhostData(x)" in src and "x.get_child_path_str(None)" in src
    if ok:
        return True
    if "FieldData::GhostData(" in src and re.search(r"insert\([^;]{0,40},0\)", src) is None and "contains_key" not in src and ".get(" not in src:
        return False  # the root group "" is no longer pre-seeded: a ghost without child path opens a group and is unwrapped
    return None


def w_parent_postcondition(chk):
    """Postcondition of MemberAttrs::parameterized_parent_attr: whatever it returns has child_fields = Some. Decided by evaluating the
    accessor (std iterator semantics, pe.IterV) on every vector of <= 2 abstract #[parent] instructions {default, dedicated to the
    queried type, dedicated elsewhere} x {with, without child fields}."""
    import itertools
    from ..pe import Evaluator, StructV, SymObj, Tag, ListV, explore, Unsupported, PanicReached
    repo = chk.repo
    fi = repo.fn(ATTR, "parameterized_parent_attr", impl="MemberAttrs")
    vecs = [f["name"] for f in repo.struct(ATTR, "MemberAttrs")["fields"]["fields"] if f["ty"].replace(" ", "").startswith("Vec<")]

    def elem(cls, cf, i):
        ct = Tag("None", [], "Option") if cls == "N" else Tag("Some", [cls], "Option")
        return StructV("ParentAttr", {"container_ty": ct, "child_fields": Tag("Some", [ListV([])], "Option") if cf else Tag("None", [], "Option"), "_id": i, "_cf": cf},
                       rest=SymObj("instr", ("named", "?")))

    def mk():
        ev = Evaluator(repo, IMPL_FILES)
        ev.concrete_iters = True
        return ev
    try:
        some_seen = False
        for ln in (1, 2):
            for combo in itertools.product([(c, f) for c in "NTU" for f in (True, False)], repeat=ln):
                vec = [elem(c, f, i) for i, (c, f) in enumerate(combo)]

                def run(ev):
                    args = ev.sym_params(fi)
                    args["self"] = StructV("MemberAttrs", {v: ListV(list(vec)) for v in vecs}, rest=SymObj("self", ("named", "MemberAttrs")))
                    if "container_ty" in args:
                        args["container_ty"] = "T"
                    return ev.run_fn(fi, args)
                for lf in explore(mk, run):
                    if lf.panic or lf.unsupported:
                        return None
                    v = lf.value
                    if isinstance(v, Tag) and v.name == "None":
                        continue
                    if isinstance(v, Tag) and v.name == "Some" and isinstance(v.args[0], StructV) and "_cf" in v.args[0].fields:
                        some_seen = True
                        if not v.args[0].fields["_cf"]:
                            return False
                        continue
                    return None
        return True if some_seen else None
    except (Unsupported, PanicReached, Inconclusive, KeyError, IndexError, AttributeError):
        return None


def w_filter_is_some(chk):
    fi = chk.repo.fn(VALIDATE, "validate_ghost_attrs")
    for n in walk(fi.body):
        if n["k"] == "For" and "container_ty.is_some()" in render(n["iter"]).replace(" ", "") and ".filter(" in render(n["iter"]):
            if "container_ty.as_ref().unwrap()" in render(n["body"]).replace(" ", ""):
                return True
    return None


def w_parent_bark(chk):
    fi = chk.repo.fn(VALIDATE, "validate")
    for n in walk(fi.body):
        if n["k"] == "Arm" and "DataTypeMember::Variant" in render_pat_s(n["pat"]):
            if re.search(r'bark_at_member_attr\(&member_attrs\.parent_attrs,\s*"parent"', render(n["body"])):
                return True
            if "parent_attrs" not in render(n["body"]):
                return False  # variants' parent instructions are no longer looked at
    return None


def w_named_fields_callers(chk):
    repo = chk.repo
    ok_fns = {"struct_init_block_inner", "render_child_fragment", "render_parent_child_fragment", "render_child"}
    for fi in repo.fns(EXPAND):
        for m in method_calls(fi.body, "named_fields"):
            if "input" in render(m["recv"]) and fi.name not in ok_fns:
                return False
    # the struct renderer is entered only with a Struct (real or the synthetic variant struct)
    s = repo.fn(EXPAND, "struct_init_block")
    return "&Struct" in s.node["sig"]["inputs"][0]["ty"].replace(" ", "") or "Struct" in s.node["sig"]["inputs"][0]["ty"]


def w_peek_then_parse(chk, fn_name, token):
    fi = chk.repo.fn(ATTR, fn_name)
    src = render(fi.body).replace(" ", "")
    return True if token in src else None


def w_variant_hint_agree(chk):
    """unreachable!('6') (tuple field without instruction under a struct-form hint) is excluded by validate_variant_fields only if validation
    and rendering read the variant's hint from the same source with the same default: the variant's own #[type_hint] else Unspecified."""
    repo = chk.repo
    rv = render(repo.fn(VALIDATE, "validate_variant_fields").body).replace(" ", "")
    re_ = render(repo.fn(EXPAND, "render_enum_line").body).replace(" ", "")
    dv = re.findall(r"type_hint\([^()]*(?:\([^()]*\))?[^()]*\)\.map_or\(([\w:.]+),", rv)
    de = re.findall(r"\.map_or\(([\w:.]+),\|\w+\|\w+\.type_hint\)", re_)
    if not dv or not de:
        return None
    if set(dv) == {"TypeHint::Unspecified"} and set(de) == {"TypeHint::Unspecified"}:
        return True
    if any(re.search(r"struct_attr\.type_hint|ctx\.", d) for d in dv + de) and set(dv) != set(de):
        return False  # one side falls back to the enum-level hint, the other to Unspecified
    return None


def w_guarded_unwrap(chk, fn_name, site_rx, required):
    """Every path of `fn_name` on which the unwrap matching `site_rx` can fail was entered under all `required` look-ahead results
    (atom regex -> True). Decided by partial evaluation of the function (independent of how its control flow is written)."""
    from ..pe import explore
    repo = chk.repo
    fi = repo.fn(ATTR, fn_name)
    leaves = explore(lambda: Evaluator(repo, IMPL_FILES, shallow=True), lambda ev: ev.run_fn(fi, ev.sym_params(fi)))
    hit = 0
    for lf in leaves:
        if lf.unsupported:
            return None
        if not lf.panic or not re.search(site_rx, str(lf.panic[1]).replace(" ", "")):
            continue
        hit += 1
        for rx in required:
            if not any(re.search(rx, a.replace(" ", "")) and v is True for a, v in lf.decisions.items()):
                return False
    return True if hit else None


def w_peek_member(chk):
    """peek_member(input) must imply that `parse::<Member>()` succeeds on the same stream: syn's Member::parse accepts exactly
    an Ident or an Index (unsuffixed integer literal <= u32::MAX). Sound recognisers: input.peek(Ident), a forked
    parse::<syn::Index>() / parse::<Member>() that is_ok(). A bare LitInt / Lit peek is known-unsound (suffixed or oversized
    integers pass the peek and fail Member::parse)."""
    fi = chk.repo.fn(ATTR, "peek_member")
    src = render(fi.body).replace(" ", "")
    if re.search(r"peek2?\((syn::)?(LitInt|Lit|LitFloat)\)", src):
        return False
    sound = [r"input\.peek\((syn::)?Ident\)", r"fork\.parse::<(syn::)?Index>\(\)\.is_ok\(\)", r"fork\.parse::<(syn::)?Member>\(\)\.is_ok\(\)"]
    rest = src
    for rx in sound:
        rest = re.sub(rx, "S", rest)
    rest = rest.replace("letfork=input.fork();", "")
    # what remains must be a pure disjunction of sound recognisers
    if re.fullmatch(r"\{?(ifS\{returntrue;?\}|S\|\|)*S\}?", rest):
        return True
    return None


def w_all(*ws):
    def f(chk):
        rs = [w(chk) for w in ws]
        if any(r is False for r in rs):
            return False
        if any(r is None for r in rs):
            return None
        return True
    return f


# site-key regex (+ optional root / subcase) -> (class, reason, witness)
TABLE = [
    (r"^<TypePath as From<syn::Path>>::from:\w+\.segments\.last\(\)\.unwrap\(\)", None, "G1", "syn::Path always has at least one segment (syn invariant)", None),
    (r"^<TypePath as From<syn::Path>>::from:\w+\.segments\.last_mut\(\)\.unwrap\(\)", None, "G1", "clone of a non-empty path", None),
    (r"^try_parse_container_ident:\w+\.parse::<Token!\[\|\]>\(\)\.unwrap\(\)", None, "G1", "guarded by input.peek(Token![|]) on the same stream",
     lambda chk: w_guarded_unwrap(chk, "try_parse_container_ident", r"input\.parse::<Token!\[\|\]>\(\)", [r"^input\.peek\(Token!\[\|\]\)$"])),
    (r"^try_parse_optional_ident:\w+\.parse::<Token!\[,\]>\(\)\.unwrap\(\)", None, "G1", "guarded by peek_member(input) && input.peek2(Token![,]): the member parse consumes exactly one token, then the comma is next",
     w_all(lambda chk: w_guarded_unwrap(chk, "try_parse_optional_ident", r"input\.parse::<Token!\[,\]>\(\)", [r"^peek_member\(input\)$", r"^input\.peek2\(Token!\[,\]\)$"]), w_peek_member)),
    (r"^try_parse_optional_ident:\w+\.parse::<Member>\(\)\.unwrap\(\)", None, "G1", "guarded by peek_member(input) on the forked stream; peek_member implies Member::parse succeeds",
     w_all(lambda chk: w_guarded_unwrap(chk, "try_parse_optional_ident", r"fork\.parse::<Member>\(\)", [r"^peek_member\(input\)$"]), w_peek_member)),
    (r"^\w+:(\w+\.)+err_ty\.as_ref\(\)\.unwrap\(\)", None, "G2",
     "validation rejects fallible instructions without an error type, for all 6 fallible conversions",
     lambda chk: w_c15_class(chk, ["class[missing error type]", "emit[Error type should be specified for fallible inst]", "validate_struct_attrs[fallible=*"] + [f"validate_struct_attrs[{k},True]" for k in ("FromOwned", "FromRef", "OwnedInto", "RefInto", "OwnedIntoExisting", "RefIntoExisting")])),
    (r"^\w+:.*child_parents_attr\(&?(\w+\.)*ty\)\.unwrap\(\)", "^Field", "G2", "check_child_errors: every child path of an Into conversion has a child_parents instruction",
     lambda chk: w_c15_class(chk, ["class[child without child_parents]", "check_child_errors/all-prefixes", "emit[Missing #[child_parents(...)] instruction for {}]", "emit[call:check_child_errors]*"])),
    (r"^\w+:(\w+\.)*child_parents\.(iter\(\)\.)?find\(", "^Field", "G2", "check_child_errors: every prefix of every child path has an entry",
     lambda chk: w_c15_class(chk, ["class[child without child_parents]", "check_child_errors/all-prefixes", "emit[Missing '{}: [Type Path]' instruction for type {]", "emit[call:check_child_errors]*"])),
    (r"^\w+:(\w+\.)*sub_path\[\w+\]\.1\.as_ref\(\)\.unwrap\(\)", None, "G2", "validate_parent_attrs: nested parent fields must be typed for From conversions",
     lambda chk: w_c15_class(chk, ["class[untyped nested parent]", "emit[Field '{0}' should have type here, e.g. '{0}: So]", "emit[call:validate_parent_attrs]*"])),
    (r"^struct_post_init:todo!\(\)", None, "G2", "bare #[parent] on an enum variant is rejected by validation (bark_at_member_attr)", w_parent_bark),
    (r"^render_struct_line:unreachable!\('6'\)", "^Field$", "G2", "tuple field without instruction under a struct-form hint is rejected by validate_fields / validate_variant_fields (top-level hint)",
     w_all(lambda chk: w_c15_class(chk, ["class[tuple/named mismatch (struct)]", "class[tuple/named mismatch (variant)]", "emit[Member {} should have member trait instruction w]", "emit[Member {} of a variant {} should have member tra]"]), w_variant_hint_agree)),
    (r"^struct_init_block_inner:unreachable!\('2'\)", "^$", "G3", "top level: struct_init_block returns early for non-From + hint Unit", w_struct_init_block_guard),
    (r"^DataType::named_fields:panic!", None, "G3", "named_fields() is only called from the struct renderers, which are entered with a (real or synthetic) Struct", w_named_fields_callers),
    (r"^validate_error_instrs:unreachable!\('13'\)", None, "G3", "error_instrs only ever holds the diagnostic variants, all of which validate_error_instrs matches",
     lambda chk: w_error_instrs(chk, "get_data_type_attrs", "DataTypeInstruction", "validate_error_instrs")),
    (r"^validate_member_error_instrs:unreachable!\('14'\)", None, "G3", "error_instrs only ever holds the diagnostic variants, all of which validate_member_error_instrs matches",
     lambda chk: w_error_instrs(chk, "get_member_attrs", "MemberInstruction", "validate_member_error_instrs")),
    (r"^struct_init_block_inner:\w+\.child_path\.as_ref\(\)\.unwrap\(\)", None, "G3", "GhostData containers are only created for ghosts with a child path (\"\" is pre-seeded as group 0)", w_ghost_groups),
    (r"^struct_init_block:\w+\.child_fields\.as_ref\(\)\.unwrap\(\)", None, "G3", "parameterized_parent_attr only returns attrs whose child_fields is Some", w_parent_postcondition),
    (r"^validate_ghost_attrs:\w+\.attr\.container_ty\.as_ref\(\)\.unwrap\(\)", None, "G3", "loop iterates a filter(.. container_ty.is_some())", w_filter_is_some),
]


def lookup_table(key, sub):
    for rx, want_sub, cls, reason, wit in TABLE:
        if re.search(rx, key) and (want_sub is None or re.search(want_sub, sub or "")):
            return cls, reason, wit
    return None


def index_rules(chk, fi, s, key):
    """Dedicated rules for index expressions. Returns True if handled."""
    repo = chk.repo
    n = s["node"]
    idx = render(n["index"]).replace(" ", "")
    base = render(n["expr"]).replace(" ", "")
    f = fi.file
    # inside an Index<&Enum> impl: self[N] with N < array length
    if fi.impl is not None and (fi.impl.get("trait") or "").replace(" ", "").startswith("Index<") and base == "self":
        alias = fi.impl["self_ty"].replace(" ", "")
        m = None
        for it, _i, _c in repo.items(ATTR):
            if it["k"] == "TypeAlias" and it["name"] == alias:
                m = re.match(r"\[bool;(\d+)\]", it["ty"].replace(" ", ""))
        n_ = int(m.group(1)) if m else None
        if n_ is None:
            # length written as CONST.len(): the number of elements of that constant array
            for it, _i, _c in repo.items(ATTR):
                if it["k"] == "TypeAlias" and it["name"] == alias:
                    mm = re.match(r"\[bool;(\w+)\.len\(\)\]", it["ty"].replace(" ", ""))
                    if mm:
                        try:
                            n_ = len(repo.const(ATTR, mm.group(1))["expr"]["elems"])
                        except Exception:
                            n_ = None
        chk.shape("R2", key, n_ is not None and idx.isdigit() and int(idx) < n_, n_ is not None and idx.isdigit() and int(idx) >= n_, f, s["line"],
                  what="constant slot outside the flag array", expected=f"< {n_ if n_ is not None else '?'}", found=idx)
        return True
    # indexing a flag array by an enum reference: total by the Index impl (exhaustive match is compiler-checked; slots checked above)
    if re.fullmatch(r"&?(\*?kind|Kind::\w+|MemberAttrType::\w+|TraitAttrType::\w+|ctx\.kind)", idx):
        ev = Evaluator(repo, IMPL_FILES)
        enum = "Kind" if "kind" in idx.lower() and "Type" not in idx else idx.strip("&").split("::")[0]
        ok = enum in ev.index_impls
        chk.expect("R2", key, ok, f, s["line"], "flag array indexed by an enum that has no Index impl", found=idx)
        return True
    # position-bounded: idx bound by Some(idx) of CONST.iter().position(..), CONST same length as the array
    if idx == "idx":
        src = render(fi.body).replace(" ", "")
        m = re.search(r"(?:match|let\w+=)(\w+)\.iter\(\)\.position\(", src)
        ok = False
        if m:
            try:
                c = repo.const(ATTR, m.group(1))
                clen = len(c["expr"]["elems"])
                arr = re.search(r"let(mut)?" + re.escape(base) + r":(\w+)=", src)
                alen = None
                if arr:
                    for it, _i, _c in repo.items(ATTR):
                        if it["k"] == "TypeAlias" and it["name"] == arr.group(2):
                            ty_ = it["ty"].replace(" ", "")
                            mm = re.match(r"\[bool;(\d+)\]", ty_)
                            alen = int(mm.group(1)) if mm else None
                            if alen is None and re.fullmatch(r"\[bool;" + re.escape(m.group(1)) + r"\.len\(\)\]", ty_):
                                alen = clen  # sized by the very constant the position is taken in
                ok = alen is not None and clen == alen
            except Inconclusive:
                ok = False
        chk.shape("R2", key, ok, False, f, s["line"], what="index from position() is not bounded by the array length", found=[base, idx])
        return True
    return False


DEPTH_SITES = {
    r"^ChildPath::get_child_path_str:(\w+\.)*child_path_str\[\w+\]": "depth < len: callers pass None, or a depth produced under `depth < child_path_str.len() - 1` + 1, or an index from enumerate() over the same path",
    r"^\w+:(\w+\.)*sub_path\[\w+\]": "guarded by `depth < parent_child_field.sub_path.len()` in the enclosing if",
    r"^\w+:(\w+\.)*child_path\[[\w.]+\]": "the depth handed to render_child is new_depth <= len-1 by the guard in render_child_fragment / sub_path.len() < child_path.len() in render_parent_child_fragment",
}


def w_depth_guards(chk):
    """Tri-state: the two recursion guards `depth is None or depth < bound` and the +1 step are present (True); a recognisably
    wrong bound (<=, or len() without the -1 for child paths) is False; any other shape is None (not understood)."""
    repo = chk.repo
    a = render(repo.fn(EXPAND, "render_child_fragment").body).replace(" ", "")
    b = render(repo.fn(EXPAND, "render_parent_child_fragment").body).replace(" ", "")
    ga = re.search(r"depth\.is_none\(\)\|\|\(?depth\.unwrap\(\)<\(?child_path\.child_path_str\.len\(\)-1\)?|depth\.map_or\(true,\|(\w+)\|\(?\1<\(?child_path\.child_path_str\.len\(\)-1\)?", a)
    gb = re.search(r"depth\.is_none\(\)\|\|\(?depth\.unwrap\(\)<parent_child_field\.sub_path\.len\(\)|depth\.map_or\(true,\|(\w+)\|\(?\1<parent_child_field\.sub_path\.len\(\)", b)
    step = lambda t: re.search(r"depth\.map_or\(0,\|(\w+)\|\(?\1\+1\)?\)", t) is not None
    if ga and gb and step(a) and step(b):
        return True
    wrong = re.search(r"depth\.unwrap\(\)<=|\|(\w+)\|\(?\1<=", a + b) or re.search(r"<\(?child_path\.child_path_str\.len\(\)\)?[^-]", a)
    return False if wrong else None


def r5_mir(chk):
    """Thorough tier: completeness of the syntactic site enumeration against the type-resolved MIR of both build configurations."""
    from .. import mirfacts as M
    repo = chk.repo
    chk.rule("R5", "every type-resolved panic-capable terminator of o2o-impl's MIR (calls to Option/Result::unwrap|expect, core::panicking::*, Index::index, "
                   "Assert terminators) lies on a site the syntactic enumeration analysed, or is statically safe (constant in-bounds index, counter increment)", floor=90)
    fs = M.facts(repo)
    syn_sites = set()
    has_unsafe = False
    for f in IMPL_FILES + ["o2o-impl/src/kw.rs", "o2o-impl/src/lib.rs"]:
        try:
            has_unsafe = has_unsafe or bool(re.search(r"\bunsafe\b", repo.text(f)))
        except Exception:
            pass
    for f in IMPL_FILES:
        for fi in repo.fns(f):
            for s in sites_of(fi):
                syn_sites.add((f, s["line"]))
                # a multi-line expression: MIR reports the first line of the call expression, the enumerator the line of the method name
                n = s["node"]
                if n.get("line") is not None:
                    syn_sites.add((f, n["line"]))
    kw_lines = {}

    def kw_line(d):
        """Is the (macro-expanded) fact located on a `custom_keyword!(..)` item of kw.rs (syn's own expansion, trusted library code)?"""
        if d["file"] not in kw_lines:
            try:
                with open(os.path.join(repo.root, d["file"]), encoding="utf-8") as fh:
                    kw_lines[d["file"]] = fh.read().splitlines()
            except OSError:
                kw_lines[d["file"]] = []
        ls = kw_lines[d["file"]]
        return 0 < d["line"] <= len(ls) and re.match(r"\s*(syn2?::)?custom_keyword!\(\w+\);", ls[d["line"] - 1]) is not None
    seen = {}
    for d in fs:
        if d["k"] == "call":
            kind = M.panic_kind(d["callee"])
            what = d["callee"]
            if kind is None:
                if M.unmodelled(d["callee"]):
                    if d["exp"] and kw_line(d):
                        continue  # syn::custom_keyword! expansion: Ident::new on a literal keyword
                    chk.inconc("R5", f"{d['caller']}: call to {d['callee'][:90]} (panics on a value-dependent precondition; no rule of this check models it)")
                continue
        else:
            kind = "assert"
            what = d["msg"]
        key = (d["caller"], kind, re.sub(r"_\d+", "_", what)[:100])
        ent = seen.setdefault(key, {"n": 0, "cfgs": set(), "verdict": None, "file": d["file"], "line": d["line"]})
        ent["n"] += 1
        ent["cfgs"].add(d["cfg"])
        if d["exp"] and kw_line(d):
            ent["verdict"] = ent["verdict"] or "inside syn's custom_keyword! expansion (library code)"
            continue
        if kind == "assert":
            m = re.match(r"BoundsCheck \{ len: const (\d+)_usize, index: const (\d+)_usize", what)
            if m and int(m.group(2)) < int(m.group(1)):
                ent["verdict"] = ent["verdict"] or "constant index in bounds"
                continue
            if re.match(r"Overflow\(Add, (copy|move) _\d+, const \d+_usize\)", what):
                ent["verdict"] = ent["verdict"] or "counter increment bounded by the number of input members"
                continue
            if re.match(r"(MisalignedPointerDereference|NullPointerDereference)", what) and not has_unsafe:
                ent["verdict"] = ent["verdict"] or "debug pointer check on a safe reference (no unsafe code in the crate)"
                continue
        if (d["file"], d["line"]) in syn_sites:
            ent["verdict"] = ent["verdict"] or "analysed by R1/R2 at this line"
            continue
        ent["verdict"] = False
    for (caller, kind, what), ent in sorted(seen.items()):
        k = f"mir:{caller}:{kind}:{what[:70]}"
        if ent["verdict"] is False:
            chk.inconc("R5", f"{k} at {ent['file']}:{ent['line']}: resolved panic-capable terminator that the syntactic enumeration did not analyse")
        else:
            chk.ok("R5", k, ent["file"], ent["line"], detail={"why": ent["verdict"], "occurrences": ent["n"], "configs": sorted(ent["cfgs"])})
    chk.unit("mir_facts", len(fs))


def run(chk):
    chk.guard("R6", lambda: _import_bound_list(chk))
    if chk.tier == "thorough":
        chk.guard("R5", lambda: r5_mir(chk))
    run_quick(chk)


def run_quick(chk):
    repo = chk.repo
    chk.rule("R1", "every unwrap/expect/panic-macro site is executed by some root region and no leaf panics there, or its obligation (site@root[case]) is discharged by the table / a known finding", floor=50)
    chk.rule("R2", "index / arithmetic / token-macro sites: total Index<&Enum> impls with constant slots < N, position-bounded indices, len()-1 on non-empty data, f{} idents", floor=40)
    chk.rule("R3", "witness of each table entry (validation rule exists and is dispatched, structural invariant present)", floor=10)

    def compute():
        res = analyse(repo, OPAQUE, TRANSPARENT)
        # make picklable
        return {"visited": res["visited"], "panics": {k: [(f, q, rk, d, p) for (f, q, rk, d, p) in v] for k, v in res["panics"].items()},
                "incomplete": res["incomplete"], "regions": res["regions"], "leaves": res["leaves"]}
    res = _cached(repo, "panics", compute)
    chk.unit("root_regions", res["regions"])
    chk.unit("leaves", res["leaves"])
    for inc in res["incomplete"]:
        chk.inconc("R1", f"region not fully analysed: {inc[1]} {inc[2]}@{inc[3]}: {inc[4]}")
    nsites = 0
    wit_cache = {}
    depth_ok = None
    for f in IMPL_FILES:
        for fi in repo.fns(f):
            ords = {}
            standalone = None
            for s in sites_of(fi):
                nsites += 1
                base = f"{fi.qual}:{norm_detail(s['detail'])[:70]}"
                o = ords.get(base, 0)
                ords[base] = o + 1
                key = site_key(fi, s, o)
                if s["detail"].endswith("(ufcs)"):
                    chk.inconc("R1", f"{key} at {f}:{s['line']}: unwrap/expect used as a path (UFCS call or function value); the evaluator does not model this form")
                    continue
                if s["kind"] == "index":
                    if index_rules(chk, fi, s, key):
                        continue
                    hit = [r for rx, r in DEPTH_SITES.items() if re.search(rx, key)]
                    if hit:
                        if depth_ok is None:
                            depth_ok = w_depth_guards(chk)
                        chk.shape("R2", key, depth_ok is True, depth_ok is False, f, s["line"], what="depth index without the bounding guard in the fragment renderers", expected=hit[0])
                    else:
                        chk.bad("R2", key, f, s["line"], "index expression with no bound argument (may panic on out-of-range)", found=s["detail"])
                    continue
                if s["kind"] == "arith":
                    d = s["detail"].replace(" ", "")
                    if d == "(group_paths.len()-1)":
                        ok = "group_paths.insert(path.clone(),group_paths.len());" in render(fi.body).replace(" ", "")
                        chk.expect("R2", key, ok, f, s["line"], "len()-1 without the preceding insert", found=d)
                    elif d == "(child_path.child_path_str.len()-1)":
                        # child paths are parsed with parse_separated_nonempty / built by ChildPath::new(root, ..): never empty
                        srcs = render(repo.fn(ATTR, "parse", impl="ChildAttr").body) + render(repo.fn(ATTR, "parse", impl="GhostData").body)
                        ok = srcs.count("parse_separated_nonempty") >= 2 and "child_path.push(root)" in render(repo.fn(ATTR, "new", impl="ChildPath").body).replace(" ", "")
                        chk.expect("R2", key, ok, f, s["line"], "child path may be empty: len()-1 underflows", found=d)
                    else:
                        chk.bad("R2", key, f, s["line"], "subtraction/division with no bound argument (may underflow/overflow-panic in debug or divide by zero)", found=d)
                    continue
                if s["kind"] == "macro":
                    n = s["node"]
                    if n["last"] == "format_ident":
                        fmt = n["args"][0]["lit"]["v"] if n.get("args") and n["args"][0]["k"] == "Lit" else None
                        valid = isinstance(fmt, str) and re.fullmatch(r"[A-Za-z_][A-Za-z0-9_]*(\{\}[A-Za-z0-9_]*)*", fmt) is not None
                        # a literal identifier start followed by interpolations of integers / identifiers is always an identifier
                        chk.shape("R2", key, bool(valid), isinstance(fmt, str) and re.match(r"[0-9]", fmt) is not None, f, s["line"],
                                  what="format_ident! whose result is not a valid identifier (starts with a digit)", found=fmt)
                    else:
                        src = n["src"].replace(" ", "")
                        # re-parsing one already-parsed lifetime node, or the fixed lifetime-bound template over lifetimes taken from the input
                        good = re.fullmatch(r"#\w+", src) is not None and re.search(r"GenericArgument::Lifetime\(", render(fi.body)) is not None or src == "'o2o:#(#ref_lts)+*"
                        chk.shape("R2", key, bool(good), False, f, s["line"], what="parse_quote! whose tokens may fail to parse at expansion time (panics)", found=n["src"][:60])
                    continue
                # unwrap / panic
                k2 = "unwrap" if s["kind"] == "unwrap" else "panic"
                visited = (f, k2, s["line"]) in res["visited"]
                pans = [p for p in res["panics"].get((f, s["line"]), []) if (p[4][0] == "unwrap") == (k2 == "unwrap") and
                        (k2 != "unwrap" or p[4][1].replace(" ", "") == render(s["node"]["recv"]).replace(" ", ""))]
                if not visited and not pans and k2 == "panic":
                    # a panic macro that no leaf evaluates is unreachable provided its enclosing match/if/fn was evaluated by some region
                    encl = None
                    for p_ in reversed(s["parents"]):
                        if p_["k"] in ("Match", "If"):
                            encl = ("match" if p_["k"] == "Match" else "if", p_["line"])
                            break
                    if encl is None:
                        encl = ("fn", fi.line)
                    if (f, encl[0], encl[1]) in res["visited"]:
                        chk.ok("R1", key, f, s["line"], detail=f"unreachable in every root region (enclosing {encl[0]}@{encl[1]} evaluated, this arm never taken)")
                        continue
                if not visited and not pans:
                    if standalone is None:
                        standalone = fallback_standalone(repo, fi, OPAQUE)
                    visited = (f, k2, s["line"]) in standalone["visited"]
                    pans = [p for p in standalone["panics"].get((f, s["line"]), []) if (p[4][0] == "unwrap") == (k2 == "unwrap")]
                    if not visited and not pans:
                        chk.inconc("R1", f"site never reached by the evaluator: {key} ({standalone['incomplete'][:1]})")
                        continue
                if not pans:
                    chk.ok("R1", key, f, s["line"], detail="executed, never panics (local or caller guard)")
                    continue
                groups = {}
                for (pf, qual, rk, dec, pan) in pans:
                    groups.setdefault((qual, rk, subcase(dec)), []).append(dec)
                for (qual, rk, sub), decs in sorted(groups.items(), key=lambda kv: str(kv[0])):
                    okey = f"{key}@{qual}/{rk}" + (f"[{sub}]" if sub else "")
                    ent = lookup_table(key, sub)
                    if ent is None:
                        chk.bad("R1", okey, f, s["line"], "panic reachable: no guard, validation rule or invariant discharges this path",
                                found={"path_condition": {a: v for a, v in list(decs[0].items())[:14]}, "paths": len(decs)})
                        continue
                    cls, reason, wit = ent
                    wk = (cls, reason)
                    if wk not in wit_cache:
                        res_ = True if wit is None else wit(chk)
                        wit_cache[wk] = res_
                        if res_ is None:
                            chk.inconc("R3", f"witness[{cls}: {reason[:80]}]: the code shape the argument was confirmed on is no longer recognised")
                        else:
                            chk.expect("R3", f"witness[{cls}: {reason[:80]}]", bool(res_), f, s["line"], "the argument that discharges this panic site no longer holds")
                    if wit_cache[wk] is None:
                        continue
                    chk.expect("R1", okey, bool(wit_cache[wk]), f, s["line"], f"{cls} discharge failed: {reason}", detail={"class": cls, "reason": reason, "paths": len(decs)})
    chk.unit("panic_capable_sites", nsites)
    if nsites < 100:
        chk.inconc("R1", f"only {nsites} panic-capable sites enumerated (< 100 confirmed by hand)")

def _import_bound_list(chk):
    """`parse_quote!('o2o: #(#list)+*)` with an empty list: syn 2 parses `'o2o:`, syn 1's parser rejects it and parse_quote! panics. The
    list interpolated must therefore be the list tested for emptiness (C11.R4 bound-list instances)."""
    from ..core import Check
    from . import c11
    sub = Check("C11", chk.repo, chk.tier)
    sub.guard("run", lambda: c11.run(sub))
    chk.rule("R6", "the lifetime bound list spliced into parse_quote!('o2o: ..) is never empty (same list as the emptiness test)", floor=1)
    n = 0
    for i in sub.instances:
        if i.rule == "R4" and i.key.startswith("o2o["):
            n += 1
            if i.ok:
                chk.ok("R6", "bounds:" + i.key, i.file, i.line)
            elif i.key.endswith("/bound-list"):
                chk.bad("R6", "bounds:" + i.key, i.file, i.line, i.what, i.expected, i.found)
