"""C20 — generated code works in #![no_std]: only core, o2o::traits and user names."""
import re

from ..quote import flat_literals, templates_in
from ..src import Inconclusive, calls, macros, method_calls, render, walk
from ..tables import IMPL_FILES

LEVEL = "proof"
EXPLANATION = (
    "Every token o2o itself contributes to its output is a literal token of some quote!/parse_quote!/format_ident! template in non-test "
    "o2o-impl code; everything else is a hole filled from the user's input. R1 enumerates ALL such templates (not only the six skeletons), "
    "extracts every literal identifier / path / lifetime and requires each maximal literal path to be one of: ::core::convert::{From,TryFrom,"
    "Into,TryInto}, ::core::result::Result, o2o::traits::{IntoExisting,TryIntoExisting}, a core-prelude name (Default::default, Ok), a Rust "
    "keyword, a binder of the template family (value, other, obj, Error) or a method of those traits. R2 enumerates every other way of making "
    "tokens (Ident::new, from_str, parse_str, Literal/Punct/Group constructors, string .parse()) and requires none; format_ident! formats must "
    "be the `f{}` binder family. R3: the facade crate is #![no_std] and src/traits.rs names nothing outside the core prelude. This is a complete "
    "enumeration of a finite set of templates, hence exhaustive for the stated clause.")
NOT_DECIDED = ["names inside user-supplied tokens (excluded by the statement)", "that the user's crate has `o2o` in scope under that name"]

ALLOWED_PATHS = {
    "::core::convert::From", "::core::convert::TryFrom", "::core::convert::Into", "::core::convert::TryInto", "::core::result::Result",
    "o2o::traits::IntoExisting", "o2o::traits::TryIntoExisting", "Default::default",
}
KEYWORDS = {"_", "impl", "for", "fn", "type", "let", "mut", "match", "self", "as", "where", "return", "if", "else", "ref", "move", "in", "Self"}
BINDERS = {"value", "other", "obj", "Error", "Ok"}
# methods of the six traits (+ Default) that templates call on user values
METHODS = {"into", "try_into", "from", "try_from", "into_existing", "try_into_existing", "default"}
FORBIDDEN_HINT = {"std", "alloc", "Box", "String", "Vec", "ToString", "format", "vec", "println", "HashMap", "Rc", "Arc", "Cow", "to_string", "to_owned", "collect"}


def literal_paths(tpl):
    """Yield (path_text, kind, line): maximal runs ident(::ident)* with optional leading :: among literal tokens."""
    seq = list(flat_literals(tpl))
    i = 0
    n = len(seq)

    def is_cc(j):
        return j + 1 < n and seq[j]["t"] == "punct" and seq[j]["v"] == ":" and seq[j].get("joint") and seq[j + 1]["t"] == "punct" and seq[j + 1]["v"] == ":"
    while i < n:
        t = seq[i]
        if t["t"] == "punct" and t["v"] == "'" and i + 1 < n and seq[i + 1]["t"] == "ident":
            yield ("'" + seq[i + 1]["v"], "lifetime", t["line"], None)
            i += 2
            continue
        lead = ""
        j = i
        if is_cc(j) and j + 2 < n and seq[j + 2]["t"] == "ident":
            lead = "::"
            j += 2
        if j < n and seq[j]["t"] == "ident":
            parts = [seq[j]["v"]]
            line = seq[j]["line"]
            j += 1
            while is_cc(j) and j + 2 < n and seq[j + 2]["t"] == "ident":
                parts.append(seq[j + 2]["v"])
                j += 3
            prev = seq[i - 1] if i > 0 else None
            after_dot = prev is not None and ((prev["t"] == "punct" and prev["v"] == ".") or (prev["t"] == "ident" and prev["v"] == "fn"))
            # a path continued by `:: #hole` (e.g. `#dst :: #ident`) keeps its literal head only
            yield (lead + "::".join(parts), "method" if after_dot else "path", line, seq[j] if j < n else None)
            i = j
            continue
        i += 1


def r1(chk):
    repo = chk.repo
    chk.rule("R1", "literal vocabulary of every template: only allowed library paths, keywords, template binders and trait methods", floor=100)
    ntpl = 0
    nidents = 0
    seen_lib = set()
    for f in IMPL_FILES:
        for fi in repo.fns(f):
            ordinal = 0
            for m, tpl in templates_in(fi.body):
                ntpl += 1
                ordinal += 1
                for path, kind, line, nxt in literal_paths(tpl):
                    nidents += 1
                    key = f"{fi.qual}:template#{ordinal}:{path}"
                    if kind == "lifetime":
                        chk.expect("R1", key, path == "'o2o", f, line, "lifetime introduced by o2o other than 'o2o", found=path)
                        continue
                    if kind == "method":
                        chk.expect("R1", key, path in METHODS or path.isdigit(), f, line, "method name that is not a method of the six conversion traits / Default", found=path)
                        continue
                    if path in ALLOWED_PATHS:
                        seen_lib.add(path)
                        chk.ok("R1", key, f, line)
                        continue
                    if "::" not in path and (path in KEYWORDS or path in BINDERS):
                        chk.ok("R1", key, f, line, nontrivial=False)
                        continue
                    chk.bad("R1", key, f, line, "template introduces a name that is neither ::core/o2o::traits/prelude nor a template binder" +
                            (" (std/alloc item: breaks #![no_std])" if set(path.replace("::", " ").split()) & FORBIDDEN_HINT else ""),
                            expected="one of the allowed paths", found=path)
    chk.unit("templates", ntpl)
    chk.unit("literal_names", nidents)
    for p in sorted(ALLOWED_PATHS - {"Default::default"}):
        chk.expect("R1", f"skeleton-uses[{p}]", p in seen_lib, "o2o-impl/src/expand.rs", 1, "expected library path never emitted (anchor drift?)", found=sorted(seen_lib))
    if ntpl < 100:
        chk.inconc("R1", f"only {ntpl} templates found (< 100 confirmed by hand)")


def r2(chk):
    repo = chk.repo
    chk.rule("R2", "tokens are only made by quote!/parse_quote!/format_ident!(\"f{}\")/Index{}/TokenStream::new|from_iter or cloned from input", floor=5)
    n = 0
    for f in IMPL_FILES:
        for fi in repo.fns(f):
            for c in calls(fi.body):
                p = c["func"]["path"]
                if re.search(r"(Ident::new|from_str|parse_str|Literal::\w+|Punct::new|Group::new|TokenTree::from|Ident::new_raw|mk_ident)", p):
                    chk.bad("R2", f"{fi.qual}:{p}", f, c["line"], "token constructor other than the template macros (its string argument escapes the vocabulary check)", found=render(c)[:100])
                if p.endswith("TokenStream::new") or p.endswith("TokenStream::from_iter"):
                    n += 1
                    chk.ok("R2", f"{fi.qual}:{p}@{n}", f, c["line"], nontrivial=False)
            for m in macros(fi.body, "format_ident"):
                args = m.get("args") or []
                fmt = args[0]["lit"]["v"] if args and args[0]["k"] == "Lit" else None
                n += 1
                chk.expect("R2", f"{fi.qual}:format_ident!({fmt!r})", fmt == "f{}", f, m["line"], "format_ident! outside the f{n} binder family", expected="f{}", found=fmt)
            for m in method_calls(fi.body, "parse"):
                r = m["recv"]
                stringy = r["k"] == "Lit" or (r["k"] == "Macro" and r["last"] == "format") or (r["k"] == "MethodCall" and r["method"] in ("to_string", "as_str", "join", "replace"))
                if stringy or "TokenStream" in m.get("turbofish", "") and r["k"] != "Path":
                    chk.bad("R2", f"{fi.qual}:parse-from-string", f, m["line"], "tokens parsed from a string built at expansion time", found=render(m)[:100])
            for st in walk(fi.body):
                if st["k"] == "Struct" and st["path"].split("::")[-1] in ("Ident", "Literal", "Punct", "Group"):
                    chk.bad("R2", f"{fi.qual}:{st['path']}-literal", f, st["line"], "token built by struct literal", found=render(st)[:80])
    chk.unit("token_constructor_sites", n)


def r3(chk):
    repo = chk.repo
    chk.rule("R3", "facade crate is #![no_std]; src/traits.rs names only core-prelude items", floor=2)
    lib = repo.need("src/lib.rs")
    has = any(a["path"] == "no_std" and a["inner"] for a in lib["attrs"])
    chk.expect("R3", "src/lib.rs:#![no_std]", has, "src/lib.rs", 1, "facade crate lost #![no_std]")
    uses = [it for it in lib["items"] if it["k"] in ("Use", "ExternCrate") and re.match(r"(::)?(std|alloc)\b", it.get("tree", it.get("name", "")))]
    chk.expect("R3", "src/lib.rs:no-std-imports", not uses, "src/lib.rs", 1, "facade imports std/alloc", found=[u.get("tree") for u in uses])
    tr = repo.need("src/traits.rs")
    txt = repo.text("src/traits.rs")
    bad = re.findall(r"\b(std|alloc)\s*::", txt)
    items = [it["k"] for it in tr["items"]]
    chk.expect("R3", "src/traits.rs:prelude-only", not bad and set(items) <= {"Trait"}, "src/traits.rs", 1, "traits.rs refers to std/alloc or has non-trait items", found={"paths": bad, "items": items})


def run(chk):
    chk.guard("R1", lambda: r1(chk))
    chk.guard("R2", lambda: r2(chk))
    chk.guard("R3", lambda: r3(chk))
