"""Self-test: each fixture is a small source edit (applied to a scratch copy of /repo made with mktemp, removed afterwards)
that breaks one rule; the named check must exit 1 and report a key matching `expect`."""
import json
import os
import re
import shutil
import subprocess
import sys
import tempfile

from .src import VERIF, repo_root


def load():
    with open(os.path.join(VERIF, "fixtures", "mutants.json")) as fh:
        return json.load(fh)


def copy_repo(dst, full=False):
    src = repo_root()
    if full:  # the MIR tier compiles the crate: the whole workspace (manifests, lock file) is needed
        os.rmdir(dst)
        shutil.copytree(src, dst, ignore=shutil.ignore_patterns("target", ".git"))
        return
    for sub in ("o2o-impl/src", "o2o-macros/src", "src"):
        shutil.copytree(os.path.join(src, sub), os.path.join(dst, sub))
    for f in ("README.md", "Cargo.toml", "o2o-impl/Cargo.toml", "o2o-macros/Cargo.toml"):
        os.makedirs(os.path.dirname(os.path.join(dst, f)), exist_ok=True)
        shutil.copy(os.path.join(src, f), os.path.join(dst, f))


def run(only=None, verbose=True):
    muts = load()
    ok = 0
    fails = []
    for m in muts:
        if only and m["prop"] != only and m["id"] != only:
            continue
        tmp = tempfile.mkdtemp(prefix="o2o-selftest-")
        try:
            tier = m.get("tier", "quick")
            copy_repo(tmp, full=(tier == "thorough"))
            edits = m.get("edits") or [{"file": m["file"], "old": m["old"], "new": m["new"]}]
            stale = False
            for e in edits:
                p = os.path.join(tmp, e["file"])
                txt = open(p).read()
                if txt.count(e["old"]) != 1:
                    fails.append((m["id"], f"fixture stale: `old` occurs {txt.count(e['old'])} times in {e['file']}"))
                    stale = True
                    break
                open(p, "w").write(txt.replace(e["old"], e["new"]))
            if stale:
                continue
            env = dict(os.environ, O2O_REPO=tmp)
            r = subprocess.run([os.path.join(VERIF, "check"), m["prop"], "--tier", tier], capture_output=True, text=True, env=env)
            keys = re.findall(r"rule=(\S+) key=(.*?) at ", r.stdout)
            want_exit = m.get("expect_exit", 1)
            if want_exit == 2:  # the rule must answer INCONCLUSIVE (an unanalysed construct), naming the instance
                keys = re.findall(r"^INCONCLUSIVE property=\S+ rule=(\S+) reason=(.*)$", r.stdout, re.M)
            hit = [k for k in keys if re.search(m["expect"], f"{k[0]} {k[1]}")]
            if r.returncode == want_exit and hit:
                ok += 1
                if verbose:
                    print(f"selftest {m['id']}: fired ({hit[0][0]} {hit[0][1][:70]})")
            else:
                fails.append((m["id"], f"exit={r.returncode} reported={keys[:4]}"))
        finally:
            shutil.rmtree(tmp, ignore_errors=True)
    for f in fails:
        print(f"selftest FAILED {f[0]}: {f[1]}")
    print(f"selftest: {ok} fixtures fired, {len(fails)} failed")
    return 0 if not fails else 1
