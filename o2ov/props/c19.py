"""C19 — expansion is a deterministic function of the input."""
import re

from ..src import Inconclusive, calls, macros, method_calls, render, strip_refs, walk, walk_with_parents
from ..tables import IMPL_FILES

TECHNIQUE = "static analysis: who-may-iterate / taint rules over every hash container (syntax tree; thorough tier: type-resolved MIR call facts), who-may-call = empty set for nondeterministic std APIs"
LEVEL = "proof"
EXPLANATION = (
    "Output can depend on a hash seed only if the iteration order of a HashMap/HashSet flows into a sequenced sink. R1 finds every hash "
    "container in non-test o2o-impl code (typed from `HashMap::new()`-style constructors, `collect::<HashSet<_>>()` and parameter types), "
    "enumerates EVERY use of each, and classifies it: point queries/updates (insert, contains, get, remove, len, …) are order-free; an "
    "order-exposing use (iter, keys, values, into_iter, drain, for-loops, Debug formatting) must flow only into order-insensitive consumers "
    "(any/all/count/min/max, collection into another hash/B-tree container, inserts into a hash container whose key mentions the element). "
    "Flowing into push/extend/combine/format/collect::<Vec>/first-match/break is a violation. R2: who-may-call = ∅ for environment, time, "
    "process, thread, filesystem, RandomState, pointer-to-integer casts and {:p}. R3: the only sorts on data feeding output are stable. "
    "Every container and use is enumerated, so the clause is decided exhaustively for the source as written. "
    " R1 also follows type aliases of hash containers, hash-typed struct fields and locals bound from them. Thorough tier: R4 takes every order-exposing call on a std hash container from the type-resolved MIR and classifies the ones R1 did not see.")
NOT_DECIDED = ["determinism of syn/quote/proc-macro2 themselves (trusted)", "span information (not part of the token text)"]

POINT = {"insert", "contains", "contains_key", "get", "get_mut", "remove", "len", "is_empty", "entry", "clear", "reserve", "get_or_insert_with", "capacity", "take", "replace"}
EXPOSING = {"iter", "iter_mut", "keys", "values", "values_mut", "into_iter", "drain", "into_keys", "into_values", "retain", "extract_if"}
INSENSITIVE_TERMINALS = {"any", "all", "count", "min", "max", "sum", "product", "len", "is_empty", "contains"}
PASSTHROUGH = {"filter", "map", "filter_map", "flat_map", "cloned", "copied", "inspect", "by_ref", "peekable", "chain"}
SEQ_SINK_METHODS = {"push", "push_str", "extend", "combine", "append", "push_back", "push_front", "write_str", "write_fmt", "extend_from_slice", "to_tokens", "insert_str"}


HASH_ALIASES = set()
HASH_FIELDS = set()


def is_hash_ty(ty):
    t = ty.replace(" ", "")
    if bool(re.search(r"\b(HashMap|HashSet)<", t) or t.endswith("HashMap") or t.endswith("HashSet")):
        return True
    head = re.sub(r"<.*", "", t).split("::")[-1].lstrip("&").replace("mut", "")
    return head in HASH_ALIASES


def hash_aliases_and_fields(repo):
    """Type aliases that name a hash container (transitively) and struct fields of such a type: (alias names, {field name: struct})."""
    aliases = set()
    for _ in range(3):
        for f in IMPL_FILES:
            for it, _i, _c in repo.items(f):
                if it["k"] == "TypeAlias":
                    t = it["ty"].replace(" ", "")
                    head = re.sub(r"<.*", "", t).split("::")[-1]
                    if re.search(r"\b(HashMap|HashSet)\b", t) or head in aliases:
                        aliases.add(it["name"])
    fields = {}
    for f in IMPL_FILES:
        for it, _i, _c in repo.items(f):
            if it["k"] == "Struct" and isinstance(it.get("fields"), dict):
                for fd in it["fields"].get("fields", []):
                    t = (fd.get("ty") or "").replace(" ", "")
                    heads = set(re.findall(r"[A-Za-z_]\w*", t))
                    if re.search(r"\b(HashMap|HashSet)\b", t) or heads & aliases:
                        fields[fd.get("name")] = it["name"]
    return aliases, fields


def r1_fields(chk):
    """Hash containers held in struct fields (possibly behind a type alias): every read of such a field is classified like a local."""
    repo = chk.repo
    aliases, fields = hash_aliases_and_fields(repo)
    fields = {k: v for k, v in fields.items() if k and not str(k).isdigit()}
    HASH_ALIASES.clear()
    HASH_ALIASES.update(aliases)
    HASH_FIELDS.clear()
    HASH_FIELDS.update(fields)
    chk.unit("hash_aliases", len(aliases))
    chk.unit("hash_fields", len(fields))
    if not fields:
        return
    for f in IMPL_FILES:
        for fi in repo.fns(f):
            ords = {}
            for node, parents in walk_with_parents(fi.body):
                if node["k"] != "Field" or node["member"] not in fields:
                    continue
                i = len(parents) - 1
                cur = node
                while i >= 0 and (parents[i]["k"] in ("Ref", "Paren") or (parents[i]["k"] == "Unary" and parents[i]["op"] == "*") or
                                  (parents[i]["k"] == "MethodCall" and parents[i]["recv"] is cur and parents[i]["method"] in ("clone", "as_ref", "as_mut", "unwrap", "borrow") and not parents[i]["args"])):
                    cur = parents[i]
                    i -= 1
                par = parents[i] if i >= 0 else None
                base = f"{fi.qual}:.{node['member']}"
                o = ords.get(base, 0)
                ords[base] = o + 1
                key = base + (f"#{o}" if o else "")
                if par is None or par["k"] in ("Let", "Struct", "Assign", "Closure", "Call", "LetExpr", "Match", "If"):
                    chk.ok("R1", key, f, node["line"], nontrivial=False)
                    continue
                if par["k"] == "For" and par["iter"] is cur:
                    lvs = [q["name"] for q in walk(par["pat"]) if q["k"] == "PIdent"]
                    verdicts = loop_body_verdict(par["body"], lvs, set(), repo, chk)
                    bad = [v for v in verdicts if not v[0]]
                    # a loop over a hash container whose body can leave the function / loop early or feeds a sequence is order-dependent
                    chk.expect("R1", key + "/for", not bad, f, node["line"], "hash order of a container held in a struct field reaches an order-sensitive effect: " + "; ".join(b[1] for b in bad), found=[b[1] for b in bad])
                    continue
                if par["k"] == "MethodCall" and par["recv"] is cur:
                    m = par["method"]
                    if m in POINT:
                        chk.ok("R1", key + "." + m, f, node["line"], detail="point query/update")
                        continue
                    if m in EXPOSING:
                        j = i - 1
                        chain, top = [m], par
                        while j >= 0 and parents[j]["k"] == "MethodCall" and parents[j]["recv"] is top:
                            top = parents[j]
                            chain.append(top["method"])
                            j -= 1
                        pj = parents[j] if j >= 0 else None
                        if len(chain) == 1 and pj is not None and pj["k"] == "For" and pj["iter"] is top:
                            lvs = [q["name"] for q in walk(pj["pat"]) if q["k"] == "PIdent"]
                            verdicts = loop_body_verdict(pj["body"], lvs, set(), repo, chk)
                            bad = [v for v in verdicts if not v[0]]
                            chk.expect("R1", key + "." + m + "/for", not bad, f, node["line"], "hash order reaches an order-sensitive effect: " + "; ".join(b[1] for b in bad), found=[b[1] for b in bad])
                            continue
                        v_ = classify_chain(chain, top)
                        chk.shape("R1", key + "." + ".".join(chain), v_ is True, v_ is False, f, node["line"], what="hash-ordered iterator of a struct field consumed by an order-sensitive operation", found=chain)
                        continue
                chk.ok("R1", key, f, node["line"], nontrivial=False)  # not an iteration: order cannot be observed here


def hash_ctor(e):
    """Does expression e construct a hash container?"""
    if e is None:
        return False
    r = render(e).replace(" ", "")
    if re.match(r"(std::collections::)?(HashMap|HashSet)(::<.*>)?::(new|with_capacity|default|from|from_iter)\(", r):
        return True
    if e["k"] == "MethodCall" and e["method"] == "collect" and re.search(r"Hash(Map|Set)", e.get("turbofish", "")):
        return True
    return False


def containers_of(fi):
    """name -> (line, how) for hash containers visible in fn fi."""
    out = {}
    for inp in fi.node["sig"]["inputs"]:
        if not inp.get("self") and is_hash_ty(inp["ty"]):
            out[inp["pat"].get("name", "_")] = (fi.line, "param:" + inp["ty"].replace(" ", ""))
    def peel_(e):
        while e is not None and (e["k"] in ("Ref", "Paren", "Try") or (e["k"] == "MethodCall" and e["method"] in ("as_ref", "as_mut", "clone", "unwrap", "iter") and not e["args"])):
            e = e.get("expr") if e["k"] in ("Ref", "Paren", "Try") else e["recv"]
        return e
    for n in walk(fi.body):
        # a local bound (through Some(..) / refs) from a hash-typed struct field is that container
        if n["k"] in ("Let", "LetExpr") and HASH_FIELDS:
            src_ = peel_(n.get("init") if n["k"] == "Let" else n.get("expr"))
            if src_ is not None and src_["k"] == "Field" and src_["member"] in HASH_FIELDS:
                for q in walk(n["pat"]):
                    if q["k"] == "PIdent" and q["name"][:1].islower():
                        out[q["name"]] = (n["line"], "field:" + src_["member"])
    for n in walk(fi.body):
        if n["k"] == "Let":
            p = n["pat"]
            ty = None
            if p["k"] == "PType":
                ty = p["ty"]
                p = p["pat"]
            if p["k"] == "PIdent":
                if (ty and is_hash_ty(ty)) or hash_ctor(n.get("init")):
                    out[p["name"]] = (n["line"], "let")
    return out


def loop_body_verdict(body, loopvars, hash_names, repo, chk_unit):
    """Classify the effects of a loop/for_each body over hash-ordered elements. Returns list of (ok, what, line)."""
    res = []
    lv = set(loopvars)

    def mentions(e, names):
        return any(n["k"] == "Path" and len(n["segs"]) == 1 and n["segs"][0] in names for n in walk(e)) or \
            any(re.search(r"\b" + re.escape(v) + r"\b", m.get("src", "")) for m in walk(e) if m["k"] == "Macro" for v in names)
    # names derived from the loop var inside the body
    derived = set(lv)
    for n in walk(body):
        if n["k"] == "Let" and "init" in n and mentions(n["init"], derived):
            for q in walk(n["pat"]):
                if q["k"] == "PIdent":
                    derived.add(q["name"])
    for n in walk(body):
        if n["k"] in ("Break", "Return"):
            res.append((False, "first-match exit from a hash-ordered loop", n["line"]))
        if n["k"] == "Assign" or (n["k"] == "Binary" and n["op"] in ("+=", "-=")):
            res.append((False, "assignment inside a hash-ordered loop (last writer wins): " + render(n)[:60], n["line"]))
        if n["k"] == "MethodCall":
            recv = strip_refs(n["recv"])
            rname = recv["segs"][0] if recv["k"] == "Path" and len(recv["segs"]) == 1 else None
            if n["method"] in SEQ_SINK_METHODS:
                res.append((False, f"sequenced sink .{n['method']}() fed in hash order: " + render(n)[:80], n["line"]))
            elif n["method"] == "insert" and rname in hash_names:
                key = n["args"][0] if n["args"] else None
                val = n["args"][1] if len(n["args"]) > 1 else None
                ok = key is not None and (mentions(key, derived) or (val is None or not mentions(val, derived)))
                res.append((ok, "insert into hash container keyed " + ("by the element" if ok else "independently of the element while the value depends on it (last writer wins)"), n["line"]))
        if n["k"] == "Macro" and n["last"] in ("quote", "write", "writeln", "print", "println", "eprintln"):
            res.append((False, f"{n['last']}! inside a hash-ordered loop", n["line"]))
        if n["k"] == "Call" and n["func"]["k"] == "Path":
            callee = n["func"]["segs"][-1]
            passes_hash = [i for i, a in enumerate(n["args"]) if strip_refs(a)["k"] == "Path" and strip_refs(a)["segs"][0] in hash_names]
            if passes_hash:
                # callee may only insert element-keyed entries
                ok, why = callee_inserts_keyed(repo, callee, n, derived)
                res.append((ok, f"call {callee}(..) with the diagnostics map: {why}", n["line"]))
    return res


def callee_inserts_keyed(repo, callee, call, derived):
    for f in IMPL_FILES:
        fi = repo.fn_opt(f, callee)
        if fi is None:
            continue
        params = [p for p in fi.params]
        # params receiving (something derived from) the loop variable
        elem_params = set()
        for p, a in zip(params, call["args"]):
            if any(n["k"] == "Path" and len(n["segs"]) == 1 and n["segs"][0] in derived for n in walk(a)):
                elem_params.add(p)
        cont = containers_of(fi)
        inserts = [m for m in method_calls(fi.body, "insert") if strip_refs(m["recv"])["k"] == "Path" and strip_refs(m["recv"])["segs"][0] in cont]
        others = [m for m in method_calls(fi.body) if m["method"] in SEQ_SINK_METHODS]
        if others:
            return False, "callee feeds a sequenced sink"
        for m in inserts:
            key = m["args"][0]
            txt = render(key)
            if not any(re.search(r"\b" + re.escape(p) + r"\b", txt) for p in elem_params):
                return False, "callee inserts a key that does not mention the element: " + txt[:60]
        return True, f"callee only inserts element-keyed entries ({len(inserts)} inserts)"
    return False, "callee not found"


def classify_chain(chain, top, ty_hint=""):
    """Verdict for an adaptor chain starting at an order-exposing call: True (order-insensitive), False (order reaches a sequence), None."""
    term = chain[-1]
    mids = chain[1:-1] if len(chain) > 1 else []
    if len(chain) == 1 or any(x not in PASSTHROUGH for x in mids):
        return None
    if term in INSENSITIVE_TERMINALS:
        return True
    if term == "collect":
        tf = top.get("turbofish", "") or ty_hint
        if re.search(r"(Hash|BTree)(Map|Set)", tf):
            return True
        if re.search(r"\b(Vec|String|TokenStream|VecDeque|Box)\b", tf):
            return False
        return None
    if term in ("next", "last", "nth", "find", "find_map", "position", "fold", "reduce", "for_each", "unzip", "zip", "enumerate", "rev", "take", "skip", "take_while", "skip_while"):
        return None if term in ("for_each", "fold", "reduce") else False
    return None


def r4_mir(chk):
    """Thorough tier: every type-resolved order-exposing call on a std hash container (whatever alias, field or helper it is reached
    through) is one that R1 classified; otherwise it is classified here from the syntax at that location."""
    from .. import mirfacts as M
    repo = chk.repo
    chk.rule("R4", "every MIR call to an order-exposing HashMap/HashSet API (iter, keys, values, drain, retain, IntoIterator, Debug) is classified", floor=2)
    fs = M.facts(repo)
    classified = getattr(chk, "_c19_exposed", set())
    seen = {}
    for d in fs:
        if d["k"] != "call" or not M.HASH_EXPOSING.search(d["callee"]):
            continue
        key = (d["caller"], re.sub(r"::<.*", "", d["callee"])[:90], d["file"])
        ent = seen.setdefault(key, {"lines": set(), "cfgs": set()})
        ent["lines"].add(d["line"])
        ent["cfgs"].add(d["cfg"])
    n = 0
    for (caller, callee, f), ent in sorted(seen.items()):
        for line in sorted(ent["lines"]):
            n += 1
            k = f"mir:{caller}:{callee}"
            if (f, line) in classified:
                chk.ok("R4", k, f, line, detail={"why": "classified by R1 at this location", "configs": sorted(ent["cfgs"])})
                continue
            # not tracked syntactically (struct field, alias, returned container ...): classify the expression found there
            verdict, why = None, "no order-exposing method call or for-loop found at this location in the syntax tree"
            if f in IMPL_FILES:
                for fi in repo.fns(f):
                    for node, parents in walk_with_parents(fi.body):
                        if node["k"] == "MethodCall" and node["method"] in EXPOSING and node.get("line") == line or \
                           (node["k"] == "MethodCall" and node["method"] in EXPOSING and node["recv"].get("line") == line):
                            chain, top, j = [node["method"]], node, len(parents) - 1
                            while j >= 0 and parents[j]["k"] == "MethodCall" and parents[j]["recv"] is top:
                                top = parents[j]
                                chain.append(top["method"])
                                j -= 1
                            v = classify_chain(chain, top)
                            verdict, why = v, "chain ." + ".".join(chain)
                        elif node["k"] == "For" and node["iter"].get("line") == line:
                            lvs = [q["name"] for q in walk(node["pat"]) if q["k"] == "PIdent"]
                            verdicts = loop_body_verdict(node["body"], lvs, set(), repo, chk)
                            bad = [v for v in verdicts if not v[0]]
                            verdict, why = (not bad), "for-loop body: " + "; ".join(b[1] for b in bad)[:160]
            if verdict is True:
                chk.ok("R4", k, f, line, detail={"why": why})
            elif verdict is False:
                chk.bad("R4", k, f, line, "hash iteration order (container reached through a field / alias / helper, found in the resolved MIR) flows into a sequence: " + why, found=callee)
            else:
                chk.inconc("R4", f"{k} at {f}:{line}: resolved order-exposing hash API call whose consumer is not recognised ({why})")
    chk.unit("mir_hash_exposing_calls", n)


def r1(chk):
    repo = chk.repo
    chk._c19_exposed = set()
    chk.rule("R1", "hash iteration order never reaches a sequenced sink (every use of every hash container classified)", floor=25)
    ncont = 0
    for f in IMPL_FILES:
        for fi in repo.fns(f):
            cont = containers_of(fi)
            if not cont:
                continue
            ncont += len(cont)
            ord_ = {}
            for node, parents in walk_with_parents(fi.body):
                if node["k"] != "Path" or len(node["segs"]) != 1 or node["segs"][0] not in cont:
                    continue
                name = node["segs"][0]
                # climb through refs / derefs
                i = len(parents) - 1
                cur = node
                while i >= 0 and (parents[i]["k"] == "Ref" or (parents[i]["k"] == "Unary" and parents[i]["op"] == "*")):
                    cur = parents[i]
                    i -= 1
                par = parents[i] if i >= 0 else None
                def mk(suffix):
                    base = f"{fi.qual}:{name}{suffix}"
                    o = ord_.get(base, 0)
                    ord_[base] = o + 1
                    return base + (f"#{o}" if o else "")
                key = f"{fi.qual}:{name}"
                if par is None:
                    chk.ok("R1", mk(""), f, node["line"], nontrivial=False)
                    continue
                if par["k"] == "Let":
                    # the declaration pattern itself / init
                    chk.ok("R1", mk(""), f, node["line"], nontrivial=False)
                    continue
                if par["k"] == "MethodCall" and par["recv"] is cur:
                    m = par["method"]
                    if m in POINT:
                        chk.ok("R1", mk(f".{m}"), f, node["line"], detail="point query/update")
                        continue
                    if m in EXPOSING:
                        chk._c19_exposed.update({(f, node["line"]), (f, par.get("line"))})
                        # follow the adaptor chain upwards
                        j = i - 1
                        chain = [m]
                        top = par
                        while j >= 0 and parents[j]["k"] == "MethodCall" and parents[j]["recv"] is top:
                            top = parents[j]
                            chain.append(top["method"])
                            j -= 1
                        term = chain[-1]
                        mids = chain[1:-1] if len(chain) > 1 else []
                        k2 = mk("." + ".".join(chain))
                        if len(chain) == 1:
                            # bare .iter(): consumer is the parent (for loop?) -> handled below if For
                            pp = parents[j] if j >= 0 else None
                            if pp is not None and pp["k"] == "For" and pp["iter"] is top:
                                lvs = [q["name"] for q in walk(pp["pat"]) if q["k"] == "PIdent"]
                                verdicts = loop_body_verdict(pp["body"], lvs, set(cont), repo, chk)
                                bad = [v for v in verdicts if not v[0]]
                                chk.expect("R1", k2 + "/for", not bad, f, node["line"], "hash order reaches an order-sensitive effect: " + "; ".join(b[1] for b in bad),
                                           found=[b[1] for b in bad], detail=[v[1] for v in verdicts])
                            else:
                                chk.inconc("R1", f"{k2} at {f}:{node['line']}: hash-ordered iterator handed to a consumer the rule does not recognise: " + (render(pp)[:80] if pp else "?"))
                            continue
                        if any(x not in PASSTHROUGH for x in mids):
                            chk.inconc("R1", f"{k2} at {f}:{node['line']}: unrecognised adaptor on a hash-ordered iterator: {mids}")
                            continue
                        if term in INSENSITIVE_TERMINALS:
                            chk.ok("R1", k2, f, node["line"], detail="order-insensitive terminal")
                        elif term == "collect" and re.search(r"(Hash|BTree)(Map|Set)", top.get("turbofish", "")):
                            chk.ok("R1", k2, f, node["line"], detail="collected into an unordered/sorted container")
                        elif term == "for_each" and top["args"] and top["args"][0]["k"] == "Closure":
                            cl = top["args"][0]
                            lvs = [q["name"] for p_ in cl["params"] for q in walk(p_) if q["k"] == "PIdent"]
                            verdicts = loop_body_verdict(cl["body"], lvs, set(cont), repo, chk)
                            bad = [v for v in verdicts if not v[0]]
                            chk.expect("R1", k2, not bad, f, node["line"], "hash order reaches an order-sensitive effect: " + "; ".join(b[1] for b in bad),
                                       expected="order-insensitive consumer", found=[b[1] for b in bad])
                        else:
                            pj = parents[j] if j >= 0 else None
                            if term in PASSTHROUGH and pj is not None:
                                # a lazy iterator in hash order handed on: decided by what receives it
                                if pj["k"] == "MethodCall" and any(a is top for a in pj["args"]) and pj["method"] in SEQ_SINK_METHODS:
                                    chk.bad("R1", k2, f, node["line"], f"hash-ordered iterator fed to the sequenced sink .{pj['method']}()", found=chain + [pj["method"]])
                                    continue
                                if pj["k"] == "For" and pj["iter"] is top:
                                    lvs = [q["name"] for q in walk(pj["pat"]) if q["k"] == "PIdent"]
                                    verdicts = loop_body_verdict(pj["body"], lvs, set(cont), repo, chk)
                                    bad = [v for v in verdicts if not v[0]]
                                    chk.expect("R1", k2 + "/for", not bad, f, node["line"], "hash order reaches an order-sensitive effect: " + "; ".join(b[1] for b in bad), found=[b[1] for b in bad])
                                    continue
                            hint = pj["pat"]["ty"] if pj is not None and pj["k"] == "Let" and pj["pat"]["k"] == "PType" else ""
                            v_ = classify_chain(chain, top, hint)
                            chk.shape("R1", k2, v_ is True, v_ is False, f, node["line"], what=f"hash-ordered iterator consumed by order-sensitive `{term}`", found=chain)
                        continue
                    chk.inconc("R1", f"{mk('.' + m)} at {f}:{node['line']}: method `{m}` on a hash container is not classified (neither point query nor order-exposing)")
                    continue
                if par["k"] == "For" and par["iter"] is cur:
                    chk._c19_exposed.update({(f, node["line"]), (f, cur.get("line"))})
                    lvs = [q["name"] for q in walk(par["pat"]) if q["k"] == "PIdent"]
                    verdicts = loop_body_verdict(par["body"], lvs, set(cont), repo, chk)
                    bad = [v for v in verdicts if not v[0]]
                    chk.expect("R1", mk("/for"), not bad, f, node["line"], "hash order reaches an order-sensitive effect: " + "; ".join(b[1] for b in bad), found=[b[1] for b in bad])
                    continue
                if par["k"] in ("Call", "MethodCall"):
                    chk.ok("R1", mk("/passed"), f, node["line"], detail="passed to " + (render(par.get("func")) if par["k"] == "Call" else par["method"]) + " (analysed there as a parameter)")
                    continue
                if par["k"] == "Macro":
                    chk.bad("R1", mk("/fmt"), f, node["line"], "hash container formatted (Debug order is seed-dependent)", found=par["last"])
                    continue
                if par["k"] in ("Closure",):
                    chk.ok("R1", mk(""), f, node["line"], nontrivial=False)
                    continue
                chk.inconc("R1", f"{mk('/?')} at {f}:{node['line']}: use of a hash container the rule does not classify: " + par["k"] + ": " + render(par)[:80])
    chk.unit("hash_containers", ncont)
    if ncont < 8:
        chk.inconc("R1", f"only {ncont} hash containers found (< 8 confirmed by hand)")


NONDET = re.compile(r"\b(std::env|env::var|env::vars|std::time|SystemTime|Instant::now|std::process|process::id|std::thread|thread::current|thread_local|std::fs|File::open|"
                    r"RandomState|rand::|getrandom|DefaultHasher|BuildHasher|hash_map::DefaultHasher|std::net|std::io::stdin|available_parallelism|type_name|Location::caller|addr_of)\b")


def r2(chk):
    repo = chk.repo
    chk.rule("R2", "no call or path into environment / time / process / thread / fs / RandomState / pointer identity", floor=1)
    n = 0
    for f in IMPL_FILES + ["o2o-macros/src/lib.rs"]:
        for it, _impl, cfgs in repo.items(f):
            if repo.is_test_item(cfgs):
                continue
            if it["k"] == "Use" and NONDET.search(it["tree"]):
                chk.bad("R2", f"{f}:use {it['tree']}", f, it["line"], "import of a nondeterministic std API")
            if it["k"] == "Static" and it.get("mut"):
                chk.bad("R2", f"{f}:static mut {it['name']}", f, it["line"], "mutable global state (cross-expansion dependence)")
            if it["k"] == "Static" and re.search(r"\b(Atomic\w+|Mutex|RwLock|RefCell|Cell|OnceCell|OnceLock|Lazy|LazyLock|LazyCell)\b", it.get("ty", "") + " " + render(it["expr"]) if isinstance(it.get("expr"), dict) else it.get("ty", "")):
                chk.bad("R2", f"{f}:static {it['name']}", f, it["line"], "global state with interior mutability survives between expansions in one compiler process: the output depends on what was expanded before",
                        found=it.get("ty"))
            if it["k"] == "ItemMacro" and it["mac"]["last"] in ("thread_local", "lazy_static"):
                chk.bad("R2", f"{f}:{it['mac']['last']}!", f, it["line"], "global state")
        for fi in repo.fns(f):
            for node in walk(fi.body):
                n += 1
                if node["k"] == "ItemStmt" and isinstance(node.get("item"), dict) and node["item"].get("k") == "Static":
                    it_ = node["item"]
                    if it_.get("mut") or re.search(r"\b(Atomic\w+|Mutex|RwLock|RefCell|Cell|OnceCell|OnceLock|Lazy|LazyLock|LazyCell)\b", str(it_.get("ty", ""))):
                        chk.bad("R2", f"{fi.qual}:static {it_['name']}", f, node["line"], "global mutable state survives between expansions in one compiler process: the output depends on what was expanded before", found=it_.get("ty"))
                if node["k"] == "Macro" and node["last"] in ("thread_local", "lazy_static"):
                    chk.bad("R2", f"{fi.qual}:{node['last']}!", f, node["line"], "global state")
                if node["k"] == "Path" and NONDET.search(node["path"]):
                    chk.bad("R2", f"{fi.qual}:{node['path']}", f, node["line"], "nondeterministic std API reachable from expansion", found=node["path"])
                if node["k"] == "Cast" and re.search(r"\*(const|mut)", render(node["expr"]) + node["ty"]) or (node["k"] == "Cast" and node["ty"].replace(" ", "") in ("usize", "u64") and re.search(r"as\*(const|mut)", render(node["expr"]).replace(" ", ""))):
                    chk.bad("R2", f"{fi.qual}:ptr-cast", f, node["line"], "pointer-to-integer cast (address-dependent output)", found=render(node)[:60])
                if node["k"] == "Macro" and node["last"] in ("format", "write", "panic", "println", "format_ident") and "{:p}" in node["src"]:
                    chk.bad("R2", f"{fi.qual}:{{:p}}", f, node["line"], "pointer formatting")
                if node["k"] == "Macro" and node["last"] in ("env", "option_env", "file", "line", "column", "module_path") and f != "o2o-macros/src/lib.rs":
                    chk.bad("R2", f"{fi.qual}:{node['last']}!", f, node["line"], "build-environment dependent macro in generator code")
    chk.ok("R2", "nondeterministic-api-scan", None, None, detail={"nodes_scanned": n})
    chk.unit("nodes_scanned_R2", n)


def r3(chk):
    repo = chk.repo
    chk.rule("R3", "sorts on data that feeds output are stable", floor=1)
    n = 0
    for f in IMPL_FILES:
        for fi in repo.fns(f):
            for m in method_calls(fi.body):
                if m["method"].startswith("sort"):
                    n += 1
                    stable = m["method"] in ("sort", "sort_by", "sort_by_key", "sort_by_cached_key")
                    chk.expect("R3", f"{fi.qual}:{render(m['recv'])}.{m['method']}", stable, f, m["line"],
                               "unstable sort: equal keys may be permuted (implementation-defined order of fields sharing a group)", expected="stable sort", found=m["method"])
                if m["method"] in ("select_nth_unstable", "select_nth_unstable_by", "shuffle", "swap_remove"):
                    chk.bad("R3", f"{fi.qual}:{m['method']}", f, m["line"], "order-destroying operation", found=m["method"])
    if n == 0:
        chk.ok("R3", "no-sorts", None, None, nontrivial=False)


def run(chk):
    chk.guard("R1", lambda: r1_fields(chk))
    chk.guard("R1", lambda: r1(chk))
    chk.guard("R2", lambda: r2(chk))
    chk.guard("R3", lambda: r3(chk))
    if chk.tier == "thorough":
        chk.guard("R4", lambda: r4_mir(chk))
