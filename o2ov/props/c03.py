"""C03 — flattened (child/parent) mappings are faithful; each nested struct is built once."""
import re

from ..linetables import struct_iter_table
from ..pe import show_toks
from ..skeleton import fn_of_impl, impl_table
from ..src import Inconclusive, calls, method_calls, render, walk
from ..tables import ATTR, EXPAND, VALIDATE, direction
from . import c07
from .c01 import cell_of, norm, squash

LEVEL = "other"
EXPLANATION = (
    "The heart of the property — every nested struct built exactly once for every permutation, interleaving and depth — is an algorithmic claim about "
    "struct_init_block / struct_init_block_inner over unbounded inputs and is NOT decided. Decided clauses (each a necessary condition visible in the "
    "code's shape): R1 bare-#[parent] pour table (& iff by-ref, try..? iff fallible, `other` vs `&mut obj`), R2 the From-side parent conversion cells "
    "agree, R3 the post-init skeleton (Default value, statements, pour, result), R4 every child-path producer that can reach the child_parents lookups "
    "of the Into renderers is validated for every prefix and every Into counterpart, R5 grouping preconditions: stable sort by first-seen group index and a "
    "separator-terminated prefix test, R6 nesting: the struct built at depth d is named by path component d and typed by the child_parents entry of the "
    "SAME prefix; From/into_existing address `<counterpart>.<child path>.<field>` (C01 child cells), R7 prefix strings are cumulative and dot-joined.")
EXPLANATION += ' R10 convert_parent_child_field evaluated concretely on a tree with sibling groups and two nesting levels: every leaf carries the chain of its own enclosing members (sub_path) and the token path `.a.b` built from it, leaves in source order.'
NOT_DECIDED = ["exactly-once construction of every nested struct for all permutations / interleavings / depths (algorithmic; believed to fail for paths such as v.m.k, v.n, v.m, "
               "but the checker cannot show it, so it is not recorded as a finding)", "runtime values"]


def run(chk):
    repo = chk.repo

    def imported():
        from ..core import Check
        sub = Check("C07", repo, chk.tier)
        c07.r1_lines(sub)
        chk.rule("R1", "bare #[parent] pour: render_parent table over (kind, fallible)", floor=8)
        chk.rule("R2", "From-side parent conversion: every cell is `[name:] (value | (&value)).[try_]into()[?],`", floor=6)
        for i in sub.instances:
            if i.key.startswith("render_parent["):
                (chk.ok if i.ok else chk.bad)("R1", i.key, i.file, i.line, **({} if i.ok else {"what": i.what, "expected": i.expected, "found": i.found}))
            elif i.key.startswith("parent-from"):
                (chk.ok if i.ok else chk.bad)("R2", i.key, i.file, i.line, **({} if i.ok else {"what": i.what, "expected": i.expected, "found": i.found}))
        fi = repo.fn(EXPAND, "struct_post_init")
        from ..panics import guard_conjuncts
        sites = [n for n in walk(fi.body) if n["k"] == "Call" and n["func"]["k"] == "Path" and n["func"]["segs"][-1] == "render_parent"]
        all_c = [guard_conjuncts(fi, s_) for s_ in sites]
        good = bool(sites) and all(any(c == "!ctx.kind.is_from()" for c in cs) and any(re.search(r"has_parameterless_parent_attr\(&ctx\.struct_attr\.ty\)", c) and not c.startswith("!") for c in cs) for cs in all_c)
        bad = bool(sites) and any(any(c == "ctx.kind.is_from()" for c in cs) or any(re.fullmatch(r"!.*has_parameterless_parent_attr\(.*", c) for c in cs) for cs in all_c)
        chk.shape("R1", "struct_post_init/guard", good, bad and not good, EXPAND, fi.line,
                  what="bare parents are poured only for non-From conversions, for the parent instruction of this counterpart", found=[c[:70] for cs in all_c for c in cs][:6])
    chk.guard("R1", imported)

    def r3():
        chk.rule("R3", "post-init skeleton: `let mut obj: <Dst> = Default::default();` then field statements, then the pours, then `obj` / `Ok(obj)`", floor=4)
        cells, info = impl_table(repo)
        for c in cells:
            if c.get("toks") is None or not c["post_init"] or direction(c["kind"]) != "Into":
                continue
            p = c["parsed"]
            key = f"post-init-body[{c['kind']},fallible={c['fallible']}]"
            if not p.get("ok") or not p["items"] or p["items"][0]["k"] != "Impl":
                chk.bad("R3", key, EXPAND, info["quote_trait"].line, "skeleton does not parse")
                continue
            fn = fn_of_impl(p["items"][0])[0]
            st = [render(s.get("init")) if s["k"] == "Let" else render(s.get("expr")) for s in fn["body"]["stmts"]]
            kinds_ = [s["k"] for s in fn["body"]["stmts"]]
            let_idx = [i for i, s in enumerate(fn["body"]["stmts"]) if s["k"] == "Let" and "obj" in render_pat_(s["pat"])]
            order = [x.replace(" ", "") for x in st]
            ok = bool(let_idx) and order[let_idx[0]] == "Default::default()" and any("__init" in x for x in order) and any("__post_init" in x for x in order)
            if ok:
                i_init = [i for i, x in enumerate(order) if "__init" in x][0]
                i_post = [i for i, x in enumerate(order) if "__post_init" in x][0]
                tail = order[-1]
                ok = let_idx[0] < i_init < i_post < len(order) - 1 and tail == ("Ok(obj)" if c["fallible"] else "obj")
            chk.expect("R3", key, ok, EXPAND, info["quote_trait"].line, "post-init body shape", found=order)
    chk.guard("R3", r3)

    def r4():
        chk.rule("R4", "every producer of a child path that the Into renderers look up in #[child_parents] is validated (all prefixes, all Into counterparts)", floor=3)
        fv = repo.fn(VALIDATE, "validate_fields")
        src = render(fv.body).replace(" ", "")
        # producers in struct_init_block: Field (child attrs), GhostData (ghosts child paths), ParentChildField (typed inline, no lookup)
        fs = repo.fn(EXPAND, "struct_init_block")
        prods = sorted(set(re.findall(r"FieldData::(\w+)\(", render(fs.body).replace(" ", ""))))
        chk.expect("R4", "producers", prods == ["Field", "GhostData", "ParentChildField"], EXPAND, fs.line, "unexpected set of member-data producers", found=prods)
        ok_field = "forchild_attrininput.fields.iter().flat_map(|x|&x.attrs.child_attrs)" in src and src.count("check_child_errors(child_attr,data_type_attrs,tp,errors)") == 2 and "into_type_paths" in src
        chk.expect("R4", "Field.child_attrs", ok_field, VALIDATE, fv.line, "field #[child] paths must be checked against child_parents for the dedicated and for every default Into counterpart", found=src.count("check_child_errors("))
        ghost_checked = bool(re.search(r"ghosts_attrs.*child_path|ghost_data.*check_child", src)) or any("ghost" in render(c_).lower() and "check_child" in render(c_) for f_ in repo.fns(VALIDATE) for c_ in calls(f_.body, "check_child_errors") if "ghost" in render(f_.body).lower() and f_.name != "validate_fields")
        chk.expect("R4", "GhostData.child_path", ghost_checked, VALIDATE, fv.line,
                   "child paths written in struct-level #[ghosts(path@field: ..)] reach render_child_fragment's child_parents lookups but are never validated (unwrap on None)", found="no validation of ghost child paths")
        from .c15 import all_prefixes_verdict
        ok_, bad_, it = all_prefixes_verdict(repo)
        chk.shape("R4", "all-prefixes", ok_, bad_, VALIDATE, repo.fn(VALIDATE, "check_child_errors").line, what="every prefix of the path must be checked", found=it)
        into_def = re.search(r"letinto_type_paths=data_type_attrs_by_kind\.iter\(\)\.filter_map\(\|\(x,kind\)\|\(\(!kind\.is_from\(\)&&!kind\.is_into_existing\(\)\)\)?\.then_some\(&x\.ty\)\)", src) or \
            "(!kind.is_from()&&!kind.is_into_existing()).then_some(&x.ty)" in src
        wrong = re.search(r"letinto_type_paths=[^;]*?(kind\.is_from\(\)\)?\.then_some|\(!kind\.is_from\(\)\)\.then_some|filter\(\|[^|]*\|!?\w*\.?is_into_existing\(\)\))", src) is not None and not into_def
        chk.shape("R4", "into-counterparts", bool(into_def), wrong, VALIDATE, fv.line, "the set of counterparts whose child paths are checked must be exactly the Into (not into_existing, not From) ones")
    chk.guard("R4", r4)

    def r5():
        chk.rule("R5", "grouping preconditions: first-seen group index, stable sort, prefix test terminated by the `.` separator", floor=4)
        fs = repo.fn(EXPAND, "struct_init_block")
        sorts = [m for m in method_calls(fs.body) if m["method"].startswith("sort")]
        ok = len(sorts) == 1 and sorts[0]["method"] in ("sort_by", "sort_by_key") and "gr_idx" in render(sorts[0])
        chk.shape("R5", "stable-sort-by-group", ok, any("unstable" in m["method"] for m in sorts) or not sorts, EXPAND, fs.line,
                  "fields must be grouped with a STABLE sort on the group index (declaration order inside a group is the emission order)", found=[m["method"] for m in sorts])
        src = render(fs.body).replace(" ", "")
        ok = "ifgroup_paths.contains_key(&path){letgr_idx=*group_paths.get(&path).unwrap();" in src and "group_paths.insert(path.clone(),group_paths.len());" in src and 'group_paths.insert("".into(),0);' in src
        # recognised-bad: the top-level group "" is not pre-seeded with index 0 anywhere in the function or a helper it calls
        all_src = src + "".join(render(f_.body).replace(" ", "") for f_ in repo.fns(EXPAND) if f_.name != fs.name and re.search(r"\b" + re.escape(f_.name) + r"\(", src))
        seeded = re.search(r"insert\((\"\"\.into\(\)|String::new\(\)|\"\"\.to_string\(\)|\"\"\.to_owned\(\)|String::from\(\"\"\)),0\)", all_src) is not None
        chk.shape("R5", "first-seen-index", ok, not seeded, EXPAND, fs.line, "group index must be the first-seen order of the path (top level = 0)", found=src[:80])
        fi = repo.fn(EXPAND, "struct_init_block_inner")
        brk = [n for n in walk(fi.body) if n["k"] == "If" and any(st["k"] == "ExprStmt" and st["expr"]["k"] == "Break" for st in n["then"]["stmts"])]
        cond = render(brk[0]["cond"]).replace(" ", "") if len(brk) == 1 else ""
        ok = cond == '((path!=p)&&!path.starts_with(format!("{p}.").as_str()))' or cond == '(path!=p&&!path.starts_with(format!("{p}.").as_str()))'
        bad = "starts_with(" in cond and not re.search(r'starts_with\(format!\("\{\w+\}\."\)', cond)
        chk.shape("R5", "prefix-test", ok, bad or (len(brk) == 1 and "starts_with" not in cond), EXPAND, fi.line,
                  "descent must stop unless the member's path equals the current prefix or extends it by a `.`-separated component (a bare starts_with would confuse `ab` with `a`)", found=cond)
        pref = [n for n in walk(fi.body) if n["k"] == "Let" and n["pat"].get("name") == "p"]
        ptxt = render(pref[0]["init"]).replace(" ", "") if pref else ""
        ok = len(pref) == 1 and re.fullmatch(r"field_ctx\.(0|child_path)\.get_child_path_str\(Some\(field_ctx\.(2|depth)\)\)", ptxt) is not None
        chk.shape("R5", "prefix-of-current-depth", ok, bool(pref) and not ok and re.search(r"get_child_path_str\((None|Some\(0\))\)", ptxt) is not None, EXPAND, fi.line,
                  "the prefix compared against must be the current child path at the current depth", found=render(pref[0]["init"]) if pref else None)
    chk.guard("R5", r5)

    def r6():
        chk.rule("R6", "nesting (Into): the struct built at depth d is named by path component d and typed by the child_parents entry for the prefix of depth d; From / into_existing address counterpart.<child path>.<field>", floor=6)
        T = struct_iter_table(repo)
        n = 0
        seen = set()
        for lf in T["leaves"]:
            if lf.kind != "ok" or not lf.frags or direction(lf.get("ctx.kind") or "") != "Into":
                continue
            for fr in lf.frags:
                s = show_toks(fr)
                if "struct_init_block_inner(" not in s or "child_parents" not in s:
                    continue
                name = re.search(r"child_path\.child_path\[([^\]]*)\]", s)
                depth = re.search(r"get_child_path_str\(Some\(new_depth\)\)\)\[new_depth=([^,\]]*)", s)
                nested = re.search(r"struct_init_block_inner\(members, [^,]*, ctx, Some\(\(([^,]*), Some\(ChildRenderContext\{ty: ([^,]*), [^)]*\), ([^)]*)\)\)\)", s)
                named_form = re.match(r"^‹[^›]*child_path\.child_path\[", s) is not None
                key = ("named" if named_form else "positional", name.group(1) if name else None, depth.group(1) if depth else None)
                if key in seen:
                    continue
                seen.add(key)
                n += 1
                ok = depth is not None and (name is None or name.group(1).replace(" ", "") == depth.group(1).replace(" ", "")) and (not named_form or name is not None)
                if nested:
                    ok = ok and nested.group(3).strip().replace(" ", "") == depth.group(1).replace(" ", "")
                chk.expect("R6", f"nest[{key[0]},depth={key[2]}]", ok, EXPAND, T["line"], "nested struct is named / typed / descended with inconsistent depths", found=s[:200])
        # From / Existing child addressing is the `child` cells of C01.R1; require that they exist and hold
        from ..core import Check
        from . import c01
        sub = Check("C01", repo, chk.tier)
        c01.r1_r2(sub)
        failing = {i.key for i in sub.instances if i.rule == "R1" and not i.ok}
        cc = [i for i in sub.instances if i.rule == "R1" and ",child" in i.key and ("From" in i.key or "Existing" in i.key) and not (not i.ok and i.key.replace(",child", "") in failing)]
        from ..core import load_known
        known = {k["key"] for k in load_known() if k["property"] == "C01" and k.get("status") == "known"}
        for i in cc:
            if i.ok:
                chk.ok("R6", "addr" + i.key, i.file, i.line)
            elif i.key in known:
                chk.bad("R6", "addr" + i.key, i.file, i.line, i.what, i.expected, i.found)
            else:
                chk.bad("R6", "addr" + i.key, i.file, i.line, i.what, i.expected, i.found)
        chk.unit("nest_fragments", n)
    chk.guard("R6", r6)

    def r7():
        chk.rule("R7", "prefix strings: cumulative, `.`-joined, whitespace-free on both sides of the comparison", floor=3)
        from ..pe import Evaluator, ListV, StructV, SymObj, Tag, explore, vkey
        from ..tables import IMPL_FILES

        def conc():
            ev = Evaluator(repo, IMPL_FILES)
            ev.concrete_iters = True
            return ev
        # build_child_path_str on a three-component path: evaluated with the std iterator / loop semantics, whatever the code shape
        fb = repo.fn(ATTR, "build_child_path_str")
        pname = [p for p in fb.params][0]
        ms = [SymObj(f"m{i}", ("named", "Member")) for i in range(3)]
        verdict, found = None, None
        try:
            lvs = explore(conc, lambda ev: ev.run_fn(fb, {pname: ListV(list(ms))}))
            if len(lvs) == 1 and not lvs[0].panic and not lvs[0].unsupported and isinstance(lvs[0].value, ListV):
                got = [vkey(x).replace(" ", "") for x in lvs[0].value.elems]
                found = got

                def comp(i):
                    return {f"«‹m{i}›»", f"str(‹m{i}›)"}
                exp_prev = {"str(‹m0›)", "«‹m0›»"}
                ok = len(got) == 3 and got[0] in exp_prev
                for i in (1, 2):
                    if not ok:
                        break
                    cands = {f"format({{}}.{{}};{got[i - 1]},{c})" for c in comp(i)}
                    ok = got[i] in cands
                verdict = ok
        except Exception as ex:  # not evaluable: undecided
            found = repr(ex)[:120]
        chk.shape("R7", "build_child_path_str", verdict is True, verdict is False, ATTR, fb.line, "prefix i must be prefix i-1 + '.' + component i (evaluated on a 3-component path)", found=found)
        # ChildPath::get_child_path_str on concrete prefixes
        fg = repo.fn(ATTR, "get_child_path_str", impl="ChildPath")
        verdict, found = None, {}
        try:
            me = lambda: StructV("ChildPath", {"child_path_str": ListV(["a", "a.b", "a.b.c"])}, rest=SymObj("self", ("named", "ChildPath")))
            outs = {}
            for label, d in (("None", Tag("None", [], "Option")), ("Some(0)", Tag("Some", [0], "Option")), ("Some(1)", Tag("Some", [1], "Option"))):
                lvs = explore(conc, lambda ev, d=d: ev.run_fn(fg, {"self": me(), "depth": d}))
                if len(lvs) != 1 or lvs[0].panic or lvs[0].unsupported:
                    raise ValueError("not evaluable for depth " + label)
                outs[label] = lvs[0].value
            found = {k: vkey(v) for k, v in outs.items()}
            verdict = outs["None"] == "a.b.c" and outs["Some(0)"] == "a" and outs["Some(1)"] == "a.b"
        except Exception as ex:
            found = repr(ex)[:120]
        chk.shape("R7", "ChildPath::get_child_path_str", verdict is True, verdict is False, ATTR, fg.line, "None = whole path, Some(d) = prefix of depth d (evaluated on a/a.b/a.b.c)", found=found)
        # child_parents entries are keyed by the whitespace-free dotted path: wherever in attr.rs a ChildParentData is built
        lits = [(fn_, n) for fn_ in repo.fns(ATTR) for n in walk(fn_.body) if n["k"] == "Struct" and (n.get("path") or "").replace(" ", "").endswith("ChildParentData")
                and any(f_["member"] == "field_path_str" for f_ in n["fields"])]
        if not lits:
            chk.inconc("R7", "no ChildParentData { field_path_str: .. } literal found in attr.rs")
        seen_k = {}
        for fn_, n in lits:
            ex = [f_["expr"] for f_ in n["fields"] if f_["member"] == "field_path_str"][0]
            if ex.get("k") == "Path" and len(ex.get("segs", [])) == 1:
                # field shorthand / a local: judge the initialiser of that local
                def _pn(p_):
                    p_ = p_.get("pat") if p_.get("k") == "PType" else p_
                    return p_.get("name") if p_.get("k") == "PIdent" else None
                ls = [st for st in walk(fn_.body) if st.get("k") == "Let" and _pn(st["pat"]) == ex["segs"][0] and st.get("init") is not None]
                if len(ls) == 1:
                    ex = ls[0]["init"]
            txt = render(ex).replace(" ", "")
            cfgk = fn_.cfg_feature() or "any"
            o = seen_k.get(cfgk, 0)
            seen_k[cfgk] = o + 1
            good = "is_whitespace" in txt or re.search(r"replace\(['\"] ['\"],\"\"\)", txt) is not None
            bad = not good and re.fullmatch(r"\w+\.to_token_stream\(\)\.to_string\(\)", txt) is not None
            chk.shape("R7", f"try_parse_child_parents[{cfgk}]/key" + (f"#{o}" if o else ""), good, bad, ATTR, n["line"],
                      what="child_parents entries must be keyed by the whitespace-free dotted path (the form the prefixes are compared in)", found=txt[:120])
    chk.guard("R7", r7)
    from .c05 import import_lookup_contracts
    chk.guard("R8", lambda: import_lookup_contracts(chk, "R8", ["child", "child_parents_attr", "parameterized_parent_attr", "has_parent_attr", "has_parameterless_parent_attr"], with_chain=False))

    def r9():
        # from-direction of a parameterised #[parent(..)]: the struct opened at nesting level d is the type written at sub_path[d]
        # (not the type of whichever member happens to open the group)
        fi = repo.fn(EXPAND, "render_parent_child_fragment")
        chk.rule("R9", "nested parent groups open the type of THEIR nesting level (sub_path[depth].1; the field's own type at the top)", floor=1)
        src = render(fi.body).replace(" ", "")
        uses = re.findall(r"sub_path((?:\.\w+\([^()]*\))+|\[[^\]]+\])\.?(?:1|and_then\(\|\w+\|\w+\.1)", src)
        by_depth = re.search(r"sub_path\[(new_)?depth\]\.1", src) is not None
        by_pos = re.search(r"sub_path\.(last|first)\(\)[^;]{0,40}\.1|sub_path\[0\]\.1|sub_path\[[^\]]*len\(\)-1\]\.1", src) is not None
        chk.shape("R9", "render_parent_child_fragment/level-type", by_depth and not by_pos, by_pos, EXPAND, fi.line,
                  what="the intermediate struct of a nested parent is built with the type of another nesting level", expected="sub_path[depth].1", found=uses[:3] or src[:80])
    chk.guard("R9", r9)
    chk.guard("R10", lambda: parent_path_contract(chk, "R10"))


def parent_path_contract(chk, rule):
    """convert_parent_child_field flattens the nested `#[parent([parent(..)] a: T, b)]` tree: evaluated concretely on a small tree with
    sibling groups and two levels of nesting, every leaf must carry exactly the chain of its OWN ancestors (member, type) and the
    token path `.anc1.anc2` built from that chain, leaves in source order with their own member and instructions."""
    from ..pe import Evaluator, ListV, StructV, SymObj, Tag, explore, vkey
    from ..tables import ATTR, IMPL_FILES
    repo = chk.repo
    chk.rule(rule, "nested parameterised #[parent]: each leaf's sub_path / sub_path_tokens is the chain of its own enclosing members (siblings independent, every level kept), leaves in source order", floor=6)
    fi = repo.fn(ATTR, "convert_parent_child_field")
    if len(fi.params) != 2:
        raise Inconclusive("convert_parent_child_field: expected (fields, sub_path) parameters, found " + str(fi.params))

    def mk(n, kids=None):
        pa = Tag("None", [], enum="Option") if kids is None else Tag("Some", [ListV(kids)], enum="Option")
        return StructV("ParentChildFieldAsParsed", {"this_member": SymObj("m_" + n, "Member"), "ty": SymObj("ty_" + n, "Option<syn::Path>"), "attrs": SymObj("attrs_" + n, "Vec"), "parent_attr": pa})
    shape = [("a", None), ("l", [("l1", None)]), ("r", [("r1", None), ("rr", [("rr1", None)]), ("r2", None)]), ("z", None)]

    def build(sh):
        return [mk(n, None if k is None else build(k)) for n, k in sh]

    def expect(sh, anc):
        out = []
        for n, k in sh:
            if k is None:
                out.append((n, list(anc)))
            else:
                out.extend(expect(k, anc + [n]))
        return out
    exp = expect(shape, [])

    def mkev():
        ev = Evaluator(repo, IMPL_FILES, shallow=False)
        ev.concrete_iters = True
        return ev
    leaves = list(explore(mkev, lambda ev: ev.run_fn(fi, {fi.params[0]: ListV(build(shape)), fi.params[1]: ListV([])})))
    if len(leaves) != 1 or leaves[0].panic or leaves[0].unsupported or not isinstance(leaves[0].value, ListV):
        why = [str(l.panic or l.unsupported or vkey(l.value))[:80] for l in leaves][:2]
        raise Inconclusive(f"convert_parent_child_field not evaluable on the concrete tree: {why}")
    got = leaves[0].value.elems
    if len(got) != len(exp) or not all(isinstance(g, StructV) for g in got):
        chk.bad(rule, "parent-path/leaves", ATTR, fi.line, "nested parent tree is not flattened to one entry per leaf in source order", expected=[n for n, _ in exp], found=[vkey(g)[:60] for g in got][:8])
        return
    for (n, anc), g in zip(exp, got):
        f_ = {k_: vkey(v_).replace(" ", "") for k_, v_ in g.fields.items()}
        key = f"parent-path[{'/'.join(anc + [n])}]"
        e_path = "[" + ",".join(f"(m_{a},ty_{a})" for a in anc) + "]"
        e_toks = "«" + "".join(f".‹m_{a}›" for a in anc) + "»"
        ok = f_.get("this_member") == "m_" + n and f_.get("attrs") == "attrs_" + n and f_.get("sub_path") == e_path and f_.get("sub_path_tokens") == e_toks
        chk.expect(rule, key, ok, ATTR, fi.line, "leaf of a nested #[parent(...)] carries the wrong enclosing-member chain (a sibling's member leaks in, or a level is dropped from the path spliced into `~` / the source path)",
                   expected={"this_member": "m_" + n, "sub_path": e_path, "sub_path_tokens": e_toks}, found={k_: f_.get(k_) for k_ in ("this_member", "sub_path", "sub_path_tokens")})


def render_pat_(p):
    from ..src import render_pat
    return render_pat(p)
