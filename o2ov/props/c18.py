"""C18 — the syn 1 and syn 2 back-ends behave identically."""
import os
import re
import shutil
import subprocess
import tempfile
import tomllib

from ..src import Inconclusive, SOURCE_FILES, method_calls, render, render_pat, render_stmt, walk, walk_with_parents
from ..tables import ATTR

LEVEL = "other"
EXPLANATION = (
    "Only o2o's own back-end-specific code is decided (agreement of the two parser libraries on shared API calls is out of reach). "
    "R1 (cfg inventory): every `cfg` mentioning a feature, at item, impl-item, statement, expression or match-arm level, in every source file, is either "
    "the `use syn2 as syn;` alias, the both-features guard of lib.rs, or one half of an adjacent syn/syn2 pair binding the same name or defining the same fn; "
    "`cfg!` and build scripts are absent. R2 (pair summaries): the paired halves are compared: try_parse_child_parents bodies are equal modulo "
    "parse_terminated's separator argument; the `path` halves both take the attribute's path; the `tokens` halves accept the same argument shapes: "
    "nothing, or exactly one *parenthesised* group, rejecting `name = value` (the syn2 half is read arm by arm, the syn1 half through "
    "OptionalParenthesizedTokenStream::parse). R3: the three manifests wire syn1/syn2 to the same back-end in both crates and the both-enabled "
    "configuration is a compile_error. R4 (thorough): rustc type-checks both configurations (`cargo check`), which the pinned suite never does for syn2. "
    " R5: no syn expression / pattern node is constructed by the generator (syn 1 prints fields as given, syn 2 normalises). R6 imports C11.R4's bound-list rule.")
NOT_DECIDED = ["behavioural agreement of syn 1.x and syn 2.x on the API calls both configurations share (parse, peek, Punctuated, …)",
               "wording of library-originated diagnostics"]


def feature_of(tokens):
    t = tokens.replace(" ", "")
    if "all(" in t or "any(" in t:
        return "both" if 'feature="syn"' in t and 'feature="syn2"' in t else "complex"
    if "not(" in t:
        return "complex"
    if 'feature="syn2"' in t:
        return "syn2"
    if 'feature="syn"' in t:
        return "syn"
    if 'feature="syn1"' in t:
        return "syn1"
    return None


def cfg_sites(repo):
    """All nodes (items, stmts, exprs, arms) carrying a cfg attribute that mentions a feature."""
    out = []
    for f in SOURCE_FILES:
        if f not in repo.files:
            continue
        for n, parents in walk_with_parents(repo.files[f]["items"]):
            for a in n.get("attrs", []) or []:
                if a["path"] in ("cfg", "cfg_attr") and "feature" in a["tokens"]:
                    out.append((f, n, parents, a))
        for n in walk(repo.files[f]["items"]):
            if n["k"] == "Macro" and n["last"] == "cfg" and "feature" in n["src"]:
                out.append((f, n, (), {"tokens": n["src"], "path": "cfg!", "line": n["line"]}))
    return out


def bound_name(n):
    if n["k"] == "Let":
        p = n["pat"]
        while p["k"] == "PType":
            p = p["pat"]
        return ("let", p.get("name"))
    if n["k"] == "Fn":
        return ("fn", n["name"])
    if n["k"] == "Use":
        return ("use", n["tree"])
    if n["k"] == "Mod":
        return ("mod", n["name"])
    return (n["k"], None)


def siblings_of(parents, n):
    if not parents:
        return None
    par = parents[-1]
    for key in ("stmts", "items"):
        if key in par and isinstance(par[key], list) and any(x is n for x in par[key]):
            return par[key]
    return None


def r1(chk):
    repo = chk.repo
    chk.rule("R1", "every feature-cfg is the syn alias, the both-features guard, or half of an adjacent syn/syn2 pair for the same name; no cfg!, no build script", floor=14)
    sites = cfg_sites(repo)
    chk.unit("cfg_sites", len(sites))
    pairs = {}
    for f, n, parents, a in sites:
        feat = feature_of(a["tokens"])
        kind, name = bound_name(n)
        if a["path"] == "cfg!":
            chk.bad("R1", f"{f}:cfg!({a['tokens']})", f, a["line"], "run-time style feature test inside an expression: unpaired back-end-specific behaviour")
            continue
        if kind == "use" and name == "syn2assyn" and feat == "syn2":
            chk.ok("R1", f"{f}:alias use syn2 as syn", f, n["line"], nontrivial=False)
            continue
        if f == "o2o-impl/src/lib.rs" and feat == "both":
            chk.ok("R1", f"{f}:both-guard {kind} {name or ''}".strip(), f, n["line"], nontrivial=False)
            continue
        if feat in ("syn", "syn2") and name:
            pairs.setdefault((f, kind, name, enclosing(parents)), []).append((feat, n, parents))
            continue
        if f == "src/lib.rs" and a["tokens"].replace(" ", "") == 'any(feature="syn1",feature="syn2")':
            chk.ok("R1", f"{f}:re-export guard", f, n["line"], nontrivial=False)
            continue
        chk.bad("R1", f"{f}:{enclosing(parents)}:cfg({a['tokens'].replace(' ', '')}) on {kind} {name}", f, n["line"], "feature-specific code that is not one half of a syn/syn2 pair", found=a["tokens"])
    for (f, kind, name, encl), halves in pairs.items():
        feats = sorted(h[0] for h in halves)
        key = f"{f}:{encl}:{kind} {name}"
        ok = feats == ["syn", "syn2"]
        if ok:
            sib = siblings_of(halves[0][2], halves[0][1])
            if sib is not None:
                i0 = [i for i, x in enumerate(sib) if x is halves[0][1]][0]
                i1 = [i for i, x in enumerate(sib) if x is halves[1][1]]
                ok = bool(i1) and abs(i1[0] - i0) == 1
        chk.expect("R1", key, ok, f, halves[0][1]["line"], "back-end-specific binding without its adjacent counterpart for the other back-end", expected=["syn", "syn2"], found=feats)
    for b in ("build.rs", "o2o-impl/build.rs", "o2o-macros/build.rs"):
        chk.expect("R1", f"no {b}", not os.path.exists(os.path.join(repo.root, b)), b, 1, "build script present (could select code per back-end outside the cfg inventory)")
    return pairs


def enclosing(parents):
    for p in reversed(parents):
        if p["k"] == "Fn":
            return p["name"]
    return "<file>"


def norm_ws(s):
    return re.sub(r"\s+", "", s)


def r2(chk, pairs):
    repo = chk.repo
    chk.rule("R2", "paired halves agree: same parser modulo the separator argument; both take the attribute path; both accept only nothing-or-one-parenthesised-group", floor=5)
    for (f, kind, name, encl), halves in sorted(pairs.items(), key=lambda kv: (kv[0][0], kv[0][3], kv[0][2])):
        if sorted(h[0] for h in halves) != ["syn", "syn2"]:
            continue
        h1 = [h for h in halves if h[0] == "syn"][0][1]
        h2 = [h for h in halves if h[0] == "syn2"][0][1]
        key = f"{f}:{encl}:{kind} {name}"
        def tail_expr(h):
            """The expression a half computes: a let's initialiser, or the single tail expression of a fn body."""
            if kind == "let":
                return h.get("init")
            b = h.get("body")
            if b and b.get("stmts") and len(b["stmts"]) == 1 and b["stmts"][0]["k"] in ("Expr", "ExprStmt"):
                return b["stmts"][0].get("expr") or b["stmts"][0]
            if b and b.get("stmts") and len(b["stmts"]) == 1:
                return b["stmts"][0]
            return None

        def strip_ok(t):
            m = re.fullmatch(r"Ok\((.*)\)", t)
            return m.group(1) if m else t
        x1, x2 = tail_expr(h1), tail_expr(h2)
        e1 = norm_ws(render(x1)) if x1 else ""
        e2 = norm_ws(render(x2)) if x2 else ""
        if kind == "fn":
            b1 = norm_ws(render(h1["body"]))
            b2 = norm_ws(render(h2["body"])).replace(",Token!(,))", ")")

            def sg(h):
                return [h["sig"]["name"], [norm_ws(i.get("ty", "self")) for i in h["sig"]["inputs"]], norm_ws(h["sig"]["output"]), norm_ws(h["sig"]["generics"])]
            if b1 == b2 and sg(h1) == sg(h2):
                chk.ok("R2", key, f, h2["line"], detail="identical modulo parse_terminated's separator argument")
                continue
        # (a) both halves take the attribute's own path
        m1 = re.fullmatch(r"\{?&(\w+)\.path\}?", e1)
        m2 = re.fullmatch(r"\{?(\w+)\.meta\.path\(\)\}?", e2)
        if m1 or m2:
            ok = bool(m1 and m2 and m1.group(1) == m2.group(1))
            chk.shape("R2", key, ok, bool(m1 and m2) and not ok, f, h1["line"], what="the two halves do not both take the attribute's own path", found={"syn": e1[:80], "syn2": e2[:80]})
            continue
        # (b) the argument tokens: syn1 parse2::<OptionalParenthesizedTokenStream>(tokens).content(); syn2 a match over Meta
        ok1 = bool(re.fullmatch(r"\{?syn::parse2\((\w+)\.tokens\.clone\(\)\)\.map\(\|(\w+):OptionalParenthesizedTokenStream\|\2\.content\(\)\)\??\}?", e1))
        init2 = x2
        if init2 is not None and init2["k"] == "Block" and len(init2.get("stmts", [])) == 1:
            init2 = init2["stmts"][0].get("expr", init2["stmts"][0])
        is_meta_match = init2 is not None and init2["k"] == "Match" and norm_ws(render(init2["scrut"])).endswith(".meta")
        if ok1 or is_meta_match:
            shape1 = {"none": "empty", "paren": "content", "brace": "reject", "bracket": "reject", "name_value": "reject"} if ok1 else None
            shape2 = None
            if is_meta_match:
                shape2 = {}
                for a in init2["arms"]:
                    p = render_pat(a["pat"]).replace(" ", "")
                    body = strip_ok(norm_ws(render(a["body"])))
                    guard = norm_ws(render(a["guard"])) if "guard" in a else ""
                    if "Meta::Path" in p:
                        shape2["none"] = "empty" if body == "TokenStream::new()" else body
                    elif "Meta::List" in p:
                        delim_checked = "Paren" in guard or "Paren" in p
                        is_content = bool(re.search(r"\.tokens\.clone\(\)$", body)) or body.endswith(".tokens")
                        if is_content and delim_checked:
                            shape2["paren"] = "content"
                        elif is_content:
                            shape2["paren"] = "content"
                            shape2.setdefault("brace", "content")
                            shape2.setdefault("bracket", "content")
                        elif "Err(" in body:
                            shape2.setdefault("brace", "reject")
                            shape2.setdefault("bracket", "reject")
                    elif "Meta::NameValue" in p:
                        shape2["name_value"] = "reject" if "Err(" in body else body
                shape2.setdefault("brace", "reject" if shape2.get("paren") == "content" and any("Paren" in norm_ws(render(a.get("guard"))) for a in init2["arms"] if "guard" in a) else shape2.get("brace", "?"))
                shape2.setdefault("bracket", shape2["brace"])
            if shape1 and shape2 is not None:
                chk.ok("R2", key + "/syn1-shape", f, h1["line"])
                for k2 in ("none", "paren", "brace", "bracket", "name_value"):
                    chk.expect("R2", f"{key}[{k2}]", shape1[k2] == shape2.get(k2), f, h2["line"],
                               "the two back-ends disagree on which attribute argument shapes are accepted", expected={"syn": shape1[k2]}, found={"syn2": shape2.get(k2)})
            else:
                chk.inconc("R2", f"{key}: one half of the argument-token pair is not of a recognised shape (syn: {e1[:80]} | syn2: {e2[:80]})")
            continue
        if e1 and e1 == e2:
            chk.ok("R2", key, f, h1["line"])
            continue
        # halves differ: a difference confined to back-end-independent code is a divergence; one touching syn API names is not decidable here
        import difflib
        src1 = norm_ws(render(h1.get("body") or h1.get("init")))
        src2 = norm_ws(render(h2.get("body") or h2.get("init"))).replace(",Token!(,))", ")")
        t1 = re.findall(r"\w+|[^\w\s]", src1)
        t2 = re.findall(r"\w+|[^\w\s]", src2)
        changed = []
        for tag, i1, i2, j1, j2 in difflib.SequenceMatcher(None, t1, t2, autojunk=False).get_opcodes():
            if tag != "equal":
                changed += t1[i1:i2] + t2[j1:j2]
        API = {"meta", "Meta", "tokens", "parse_terminated", "parse_args_with", "MacroDelimiter", "delimiter", "List", "NameValue", "require_list", "parse_nested_meta", "Token", "Punctuated"}
        words = [w for w in changed if re.fullmatch(r"[A-Za-z_]\w*", w)]
        independent = bool(words) and not any(w in API for w in words)
        chk.shape("R2", key, False, independent, f, h2["line"],
                  what="the two back-end copies differ in code that does not depend on the syn version (the same input is processed differently under syn 1 and syn 2)",
                  found={"differing_tokens": changed[:20]})
    # the syn1 acceptance shape rests on OptionalParenthesizedTokenStream::parse peeking only Paren (C13.R1 checks it too)
    fp = repo.fn(ATTR, "parse", impl="OptionalParenthesizedTokenStream")
    peeks = [render(m["args"][0]) for m in method_calls(fp.body, "peek")]
    chk.expect("R2", "OptionalParenthesizedTokenStream::parse/peek", peeks == ["Paren"], ATTR, fp.line, "syn1 argument shape is no longer 'one parenthesised group'", found=peeks)


def r3(chk):
    repo = chk.repo
    chk.rule("R3", "feature wiring: syn1/syn2 select the same back-end in the facade, o2o-macros and o2o-impl; both-enabled is a compile_error; alias present in every module", floor=8)

    def load(p):
        with open(os.path.join(repo.root, p), "rb") as fh:
            return tomllib.load(fh)
    root, mac, imp = load("Cargo.toml"), load("o2o-macros/Cargo.toml"), load("o2o-impl/Cargo.toml")
    rf, mf = root.get("features", {}), mac.get("features", {})
    chk.expect("R3", "Cargo.toml[syn1]", sorted(rf.get("syn1", [])) == ["o2o-impl/syn", "o2o-macros/syn1"], "Cargo.toml", 1, "facade syn1 wiring", found=rf.get("syn1"))
    chk.expect("R3", "Cargo.toml[syn2]", sorted(rf.get("syn2", [])) == ["o2o-impl/syn2", "o2o-macros/syn2"], "Cargo.toml", 1, "facade syn2 wiring", found=rf.get("syn2"))
    chk.expect("R3", "Cargo.toml[default]", rf.get("default") == ["syn1"], "Cargo.toml", 1, "default back-end", found=rf.get("default"))
    chk.expect("R3", "o2o-macros[syn1]", sorted(mf.get("syn1", [])) == ["dep:syn", "o2o-impl/syn"], "o2o-macros/Cargo.toml", 1, "macros syn1 wiring", found=mf.get("syn1"))
    chk.expect("R3", "o2o-macros[syn2]", sorted(mf.get("syn2", [])) == ["dep:syn2", "o2o-impl/syn2"], "o2o-macros/Cargo.toml", 1, "macros syn2 wiring", found=mf.get("syn2"))
    md = root.get("dependencies", {}).get("o2o-macros", {})
    chk.expect("R3", "Cargo.toml[o2o-macros default-features=false]", md.get("default-features") is False, "Cargo.toml", 1, "facade must not force the macros' default back-end", found=md)
    for tbl, name in ((imp, "o2o-impl"), (mac, "o2o-macros")):
        d = tbl.get("dependencies", {})
        s1, s2 = d.get("syn", {}), d.get("syn2", {})
        ok = s1.get("package") == "syn" and str(s1.get("version", "")).startswith("1") and s1.get("optional") is True and \
            s2.get("package") == "syn" and str(s2.get("version", "")).startswith("2") and s2.get("optional") is True
        chk.expect("R3", f"{name}[deps]", ok, f"{name}/Cargo.toml", 1, "syn / syn2 must be optional deps on syn 1.x / 2.x", found={"syn": s1, "syn2": s2})
    lib = repo.need("o2o-impl/src/lib.rs")
    ce = [it for it in lib["items"] if it["k"] == "ItemMacro" and it["mac"]["last"] == "compile_error" and any(feature_of(a["tokens"]) == "both" and "not(" not in a["tokens"] for a in it["attrs"])]
    chk.expect("R3", "o2o-impl/lib.rs[compile_error]", len(ce) == 1, "o2o-impl/src/lib.rs", 1, "enabling both back-ends must be a compile error")
    for f in ("o2o-impl/src/ast.rs", "o2o-impl/src/attr.rs", "o2o-impl/src/expand.rs", "o2o-impl/src/validate.rs", "o2o-impl/src/kw.rs", "o2o-macros/src/lib.rs"):
        has = any(it["k"] == "Use" and it["tree"] == "syn2assyn" and any(feature_of(a["tokens"]) == "syn2" for a in it["attrs"]) for it in repo.need(f)["items"])
        chk.expect("R3", f"{f}[alias]", has, f, 1, "module lacks the `#[cfg(feature=\"syn2\")] use syn2 as syn;` alias")
        # and nothing names syn2:: directly outside cfg(syn2) code
    n_direct = 0
    for f in SOURCE_FILES:
        if f not in repo.files:
            continue
        for n, parents in walk_with_parents(repo.files[f]["items"]):
            if n["k"] in ("Path", "PPath", "PTupleStruct", "PStruct") and (n.get("path", "").startswith("syn2::")):
                guarded = any(any(feature_of(a["tokens"]) == "syn2" for a in (p.get("attrs") or []) if a["path"] == "cfg") for p in parents + (n,))
                n_direct += 1
                chk.expect("R3", f"{f}:{enclosing(parents)}:direct {n['path']}", guarded, f, n["line"], "syn2:: named outside cfg(feature=\"syn2\") code")
    chk.unit("direct_syn2_paths", n_direct)


def r4(chk):
    """thorough: both configurations type-check."""
    repo = chk.repo
    chk.rule("R4", "rustc type-checks o2o-impl and o2o-macros under syn1 and under syn2", floor=2)
    for cfg, args in (("syn1", ["-p", "o2o-macros", "--no-default-features", "--features", "syn1"]), ("syn2", ["-p", "o2o-macros", "--no-default-features", "--features", "syn2"])):
        tgt = tempfile.mkdtemp(prefix="o2o-c18-")
        try:
            env = dict(os.environ, CARGO_TARGET_DIR=tgt, CARGO_NET_OFFLINE="true", RUSTFLAGS="-Awarnings")
            r = subprocess.run(["cargo", "check", "--offline", "-q"] + args, cwd=repo.root, env=env, capture_output=True, text=True)
            errs = [l for l in r.stderr.splitlines() if l.startswith("error")]
            chk.expect("R4", f"cargo-check[{cfg}]", r.returncode == 0, "Cargo.toml", 1, "configuration does not type-check", found=errs[:5])
        finally:
            shutil.rmtree(tgt, ignore_errors=True)


def run(chk):
    pairs = {}

    def _r1():
        pairs.update(r1(chk))
    chk.guard("R1", _r1)
    chk.guard("R2", lambda: r2(chk, pairs))
    chk.guard("R3", lambda: r3(chk))
    if chk.tier == "thorough":
        chk.guard("R4", lambda: r4(chk))

    def r5():
        """The two back-ends print the nodes they PARSED from the input identically (tokens as written); they differ in how they print
        nodes the generator BUILDS: syn 2 normalises expression paths (inserts `::` before `<..>`, parenthesises sub-expressions) where
        syn 1 prints the fields as given. So: generator code builds no syn expression / pattern / type node; the only foreign nodes it
        constructs are position indices (and errors)."""
        from ..tables import IMPL_FILES
        repo = chk.repo
        chk.rule("R5", "no syn AST node whose printing differs between syn 1 and syn 2 is constructed by the generator (allowed: Index, Member, Ident, Lifetime, Error)", floor=5)
        own = set()
        for f in IMPL_FILES:
            for it, _impl, _c in repo.items(f):
                if it["k"] in ("Struct", "Enum"):
                    own.add(it["name"])
        ALLOWED = {"Index", "Member", "Ident", "Lifetime", "Error", "Self"}
        n = 0
        for f in IMPL_FILES:
            for fi in repo.fns(f):
                seen = {}
                for node in walk(fi.body):
                    name = None
                    if node["k"] == "Struct":
                        segs = [s_ for s_ in (node.get("path") or "").replace(" ", "").split("::") if s_]
                        if not segs:
                            continue
                        name = segs[-1] if segs[0] in ("syn", "syn2") or segs[0] not in own else None
                        if name is None or (len(segs) > 1 and segs[0] in own):
                            continue
                    elif node["k"] == "Call" and node["func"]["k"] == "Path":
                        segs = node["func"]["segs"]
                        cand = [s_ for s_ in segs[:-1] if re.fullmatch(r"(Expr|Pat|Type)[A-Z]\\w*|Expr|Pat|Type|PathSegment|Stmt|Block|Item\\w*|Arm|Local", s_)]
                        if not cand or segs[0] in own:
                            continue
                        name = cand[-1]
                    else:
                        continue
                    n += 1
                    o = seen.get(name, 0)
                    seen[name] = o + 1
                    key = f"{fi.qual}:construct {name}" + (f"#{o}" if o else "")
                    good = name in ALLOWED
                    # nodes whose syn-2 printer rewrites what it is given (print_path with PathStyle::Expr; fixup parentheses)
                    bad = name in ("ExprPath", "ExprStruct", "ExprCall", "ExprMethodCall", "ExprField", "ExprBinary", "ExprUnary", "ExprCast", "ExprReference",
                                   "ExprRange", "ExprAssign", "ExprIndex", "ExprTry", "PatStruct", "PatTupleStruct", "PatPath")
                    chk.shape("R5", key, good, bad, f, node["line"],
                              what="the generator builds a syn expression / pattern node and prints it: syn 1 prints the fields as given, syn 2 normalises (turbofish, parentheses), so the two back-ends emit different tokens",
                              expected="interpolate the parsed node / tokens instead of building an AST node", found=render(node)[:100])
        chk.unit("foreign_node_constructions", n)
    chk.guard("R5", r5)
    chk.guard("R6", lambda: _import_bound_list(chk))

def _import_bound_list(chk):
    """`parse_quote!('o2o: #(#list)+*)` with an empty list: syn 2 parses `'o2o:`, syn 1's parser rejects it and parse_quote! panics. The
    list interpolated must therefore be the list tested for emptiness (C11.R4 bound-list instances)."""
    from ..core import Check
    from . import c11
    sub = Check("C11", chk.repo, chk.tier)
    sub.guard("run", lambda: c11.run(sub))
    chk.rule("R6", "the lifetime bound list spliced into parse_quote!('o2o: ..) is never empty (same list as the emptiness test)", floor=1)
    n = 0
    for i in sub.instances:
        if i.rule == "R4" and i.key.startswith("o2o["):
            n += 1
            if i.ok:
                chk.ok("R6", "bounds:" + i.key, i.file, i.line)
            elif i.key.endswith("/bound-list"):
                chk.bad("R6", "bounds:" + i.key, i.file, i.line, i.what, i.expected, i.found)
