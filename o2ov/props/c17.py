"""C17 — accepted inputs expand to syntactically valid impl items of the right shape."""
import re

from ..linetables import fn_table, struct_iter_table
from ..pe import show_toks
from ..quote import CLOSE
from ..skeleton import assoc_types, fn_of_impl, impl_table
from ..src import Inconclusive, parse_snippets, render, walk
from ..tables import EXPAND, direction, kinds
from .c01 import cell_key, cell_of, norm

LEVEL = "other"
EXPLANATION = (
    "Output is assembled from independently produced fragments; validity depends on every fragment's dialect matching the context it is spliced into. "
    "R1: each of the 12 x post-init skeleton cells parses (syn, placeholders for holes) as exactly one impl with exactly the trait's one method (+ type Error "
    "iff fallible). R2 (abstract assembly): for every leaf of the struct line table (one loop iteration: ~12k cells of member x instruction x kind x hint x "
    "post-init x mode x child/parent) the fragment it pushes is spliced, with a canonical placeholder for every user token, into the wrapper that "
    "struct_init_block_inner's tail selects for the SAME (direction, hint, shape, post-init) cell, then into struct_main_code_block's prefix and the skeleton "
    "body, and the whole item is parsed by syn: Rust's grammar decides acceptance, not a hand-written category list. Tail fragments (struct-level ghost lines, "
    "..update) are assembled into every context they are pushed in. R3: enum bodies: every arm shape of render_enum_line / render_enum_ghost_line / default case "
    "parses inside `match`, and enum_main_code_block yields a valid body for every kind. Cells that validation rejects or that panic are C16's.")
EXPLANATION += ' R7 imports the nested-parent path contract (C03.R10): the member chain spliced into field expressions is a well-formed `.a.b.c`.'
NOT_DECIDED = ["well-formedness of user-supplied tokens (excluded by the statement)", "type-correctness of the item (rustc)"]


def rep_src(toks):
    """Symbolic tokens -> representative Rust source (every user-provided hole becomes a canonical placeholder)."""
    out = []
    for t in toks:
        k = t[0]
        if k == "lit":
            out.append((t[1], len(t) > 2 and t[2]))
        elif k == "group":
            out.append((t[1], False))
            out.extend(rep_src_parts(t[2]))
            out.append((CLOSE[t[1]], False))
        elif k == "index":
            out.append(("0", False))
        elif k == "fident":
            out.append(("__f0", False))
        elif k == "sym":
            p = t[1]
            if p.startswith("replace_tilde_or_at_in_expr("):
                out.append(("__expr", False))
            elif "struct_init_block_inner(" in p:
                out.append(("@@NESTED@@", False))
            elif p.startswith("variant_destruct_block("):
                out.append(("{ __b , }", False))
            elif p.startswith("struct_init_block("):
                out.append(("@@INIT@@", False))
            elif p.startswith("enum_init_block("):
                out.append(("@@NESTED@@", False))
            elif p.endswith("sub_path_tokens"):
                out.append(("", False))
            elif p.endswith(".ty") or ".child_parents" in p or p.endswith("dst_ty") or p.endswith("src_ty"):
                out.append(("__Ty", False))
            else:
                out.append(("__x", False))
        elif k == "opt":
            out.append(("", False))
        elif k == "rep":
            out.append(("@@REP:" + t[1] + "@@", False))
        else:
            out.append(("__x", False))
    return out


def rep_src_parts(toks):
    return rep_src(toks)


def to_text(parts):
    s = ""
    for i, (txt, joint) in enumerate(parts):
        s += txt
        nxt = parts[i + 1][0] if i + 1 < len(parts) else ""
        if joint and nxt and not (nxt[0].isalnum() or nxt[0] in "_#{([@"):
            continue
        s += " "
    return s.strip()


def r1(chk, cells, fi):
    chk.rule("R1", "every skeleton cell parses as one impl with exactly the trait's method (+ type Error iff fallible)", floor=20)
    for c in cells:
        if c.get("toks") is None:
            continue
        key = f"skeleton[{c['kind']},fallible={c['fallible']},post_init={c['post_init']}]"
        p = c["parsed"]
        ok = p.get("ok") and len(p["items"]) == 1 and p["items"][0]["k"] == "Impl"
        if ok:
            im = p["items"][0]
            ok = len(fn_of_impl(im)) == 1 and len(assoc_types(im)) == (1 if c["fallible"] else 0) and len(im["items"]) == 1 + (1 if c["fallible"] else 0)
        chk.expect("R1", key, bool(ok), EXPAND, fi.line, "skeleton does not parse as a single well-shaped impl item", found=p.get("error") or "item shape")


def main_block_variants(repo):
    """struct_main_code_block: prefix per (dir, nameless_tuple, post_init)."""
    T = fn_table(repo, "struct_main_code_block")
    out = {}
    for lf in T["leaves"]:
        if lf.kind != "ok":
            continue
        d = direction(lf.get("ctx.kind"))
        nt = lf.get("ctx.struct_attr.ty.nameless_tuple")
        pi = lf.get("ctx.has_post_init")
        if lf.toks is not None:
            txt = to_text(rep_src(lf.toks))
        else:
            txt = "@@INIT@@"
        out[(d, nt, pi)] = txt
    return out


def r2(chk, cells, qt):
    repo = chk.repo
    chk.rule("R2", "abstract assembly: every fragment a cell can push, spliced into the wrapper / prefix / skeleton body chosen for the same cell, parses as a valid impl item", floor=150)
    IT = struct_iter_table(repo)
    TT = fn_table(repo, "struct_init_block_inner")
    mains = main_block_variants(repo)
    # skeleton bodies keyed by (dir, fallible, post_init)
    skel = {}
    for c in cells:
        if c.get("toks") is not None:
            skel[(direction(c["kind"]), c["fallible"], bool(c["post_init"]))] = re.sub(r"\s+", " ", c["src"])
    # wrappers from the tail table
    wrappers = {}
    for lf in TT["leaves"]:
        if lf.kind != "ok" or lf.toks is None:
            continue
        d = direction(lf.get("ctx.kind"))
        hint = None
        for a, v in lf.d.items():
            if a.endswith("type_hint") or a == "type_hint":
                hint = v
        named = lf.get("named_fields")
        pi = bool(lf.get("ctx.has_post_init"))
        upd = any(a.endswith(".update") and v == "Some" for a, v in lf.d.items())
        ghosts = any("ghosts_attr(" in a and v == "Some" for a, v in lf.d.items())
        txt = to_text(rep_src(lf.toks))
        wrappers.setdefault((d, hint, named, pi), set()).add((txt, upd, ghosts))
    chk.unit("wrapper_cells", len(wrappers))
    reqs = []
    meta = []
    seen = set()

    def add(key, src, what, line):
        meta.append((key, what, line, src))
        if src in seen:
            return
        seen.add(src)
        reqs.append({"as": "file", "src": src})

    def assemble(d, fallible, pi, nameless, wrapper_txt, frag_txt):
        body = re.sub(r"@@REP:loop:fragments[^@]*@@", " " + frag_txt + " ", wrapper_txt, count=1)
        body = re.sub(r"@@REP:[^@]*@@", " ", body)
        body = body.replace("@@NESTED@@", "{}")
        mb = mains.get((d, nameless, pi)) or mains.get((d, None, pi)) or mains.get((d, nameless, None)) or mains.get((d, None, None))
        if mb is None:
            return None
        main = mb.replace("@@NESTED@@", body).replace("@@INIT@@", body)
        sk = skel.get((d, fallible, pi))
        if sk is None:
            return None
        ph = "{ __init_ok }" if "{ __init_ok }" in sk else "{ __init }"
        inner = main if ph == "{ __init }" else (main if pi else f"Ok ( {main} )")
        return sk.replace(ph, inner).replace("{ __pre_init }", "").replace("{ __post_init }", "__post ( ) ;").replace("#![__inner_attr]", "").replace("#[__attr]", "").replace("#[__impl_attr]", "")

    n_cells = 0
    for lf in IT["leaves"]:
        if lf.kind != "ok" or not lf.frags:
            continue
        fd = lf.get("members.peek()!.field_data")
        pi_raw = lf.get("ctx.has_post_init")
        if fd == "Field":
            c = cell_of(lf)
            d, hint, pi = c["dir"], c["hint"], bool(c["post_init"])
            if c["impl"] == "Variant" and (pi or d == "Existing"):
                continue
            named_opts = [c["member"] == "Named"] if c["member"] in ("Named", "Unnamed") else [True, False]
            if lf.get("ctx.input.named_fields()") is not None:
                named_opts = [lf.get("ctx.input.named_fields()")]
            ckey = cell_key(c)
        else:
            k = lf.get("ctx.kind")
            d = direction(k) if k else None
            hint = lf.get("type_hint")
            pi = bool(lf.get("ctx.has_post_init"))
            named_opts = [True, False]
            if lf.get("ctx.input.named_fields()") is not None:
                named_opts = [lf.get("ctx.input.named_fields()")]
            ckey = f"[{fd},{d},{hint}" + (",post_init" if pi else "") + "]"
            if lf.get("ctx.impl_type") == "Variant" and (pi or d == "Existing"):
                continue
        if d is None or hint is None:
            continue
        if fd == "ParentChildField" and lf.get("ctx.input.named_fields()") is None:
            for a, v in lf.d.items():
                if a.endswith(".this_member") and v in ("Named", "Unnamed"):
                    named_opts = [v == "Named"]
        # a discriminant the leaf never consulted: the fragment is pushed in both contexts
        pi_opts = [pi] if pi_raw is not None else ([False, True] if (d == "Into" and lf.get("ctx.impl_type") != "Variant") else [False])
        for fr in lf.frags:
            raw_txt = to_text(rep_src(fr))
            if fd == "ParentChildField" and d == "From" and "@@NESTED@@" not in raw_txt:
                # the innermost line of a flattened parent lands in the parent's own wrapper, chosen by the nested member's shape
                for a, v in lf.d.items():
                    if a.endswith(".this_member") and v in ("Named", "Unnamed"):
                        named_opts = [v == "Named"]
            ftxt = raw_txt.replace("@@NESTED@@", "{}")
            ftxt = re.sub(r"@@REP:[^@]*@@", "", ftxt)
            for named in named_opts:
              for pi in pi_opts:
                ws = set()
                for (wd, wh, wn, wpi), wset in wrappers.items():
                    if wd == d and wpi == pi and (wh is None or wh == hint) and (wn is None or wn == named):
                        ws |= wset
                if not ws:
                    continue
                n_cells += 1
                for (wtxt, upd, ghosts) in ws:
                    if upd or ghosts:
                        continue  # tail fragments are assembled separately below
                    for fallible in (False, True):
                        src = assemble(d, fallible, pi, False if d != "From" else None, wtxt, ftxt)
                        if src:
                            add(f"cell{ckey}@{d}/{hint}/named={named}/post_init={pi}", src, "member fragment", IT["line"])
                            break
    # tail fragments: update and struct-level ghost lines in every context they are pushed into
    GL = fn_table(repo, "render_ghost_line")
    ghost_frags = {}
    for lf in GL["leaves"]:
        if lf.kind == "ok" and lf.toks is not None and lf.get("ctx.impl_type") != "Enum":
            ghost_frags.setdefault(direction(lf.get("ctx.kind")), set()).add(to_text(rep_src(lf.toks)))
    for (d, hint, named, pi), ws in sorted(wrappers.items(), key=str):
        for (wtxt, upd, ghosts) in ws:
            if upd:
                src = assemble(d, False, pi, False if d != "From" else None, wtxt, "")
                if src:
                    add(f"tail[update]@{d}/{hint}/named={named}/post_init={pi}", src, "..update", TT["fn_line"])
            if d != "From":
                for g in sorted(ghost_frags.get(d, [])):
                    g_named = (":" in g.split("=")[0]) and not g.startswith("other")
                    brace = wtxt.strip().startswith("{")
                    paren = wtxt.strip().startswith("(")
                    if (brace and not g_named and not g.startswith("other")) or (paren and g_named):
                        continue  # a named ghost for a tuple-form counterpart (or vice versa) is the user's mismatch, outside the property
                    src = assemble(d, False, pi, False, wtxt if not upd else re.sub(r"\.\.\s*__expr", "", wtxt), g)
                    if src:
                        add(f"tail[ghosts-line:{'named' if ':' in g.split('=')[0] and not g.startswith('other') else ('existing' if g.startswith('other') else 'positional')}]@{d}/{hint}/named={named}/post_init={pi}",
                            src, "struct-level ghost line", TT["fn_line"])
    res = parse_snippets(reqs) if reqs else []
    chk.unit("assembled_items_parsed", len(reqs))
    chk.unit("iteration_cells_assembled", n_cells)
    by_key = {}
    verdict = {}
    for rq, r in zip(reqs, res):
        verdict[rq["src"]] = (bool(r.get("ok") and len(r.get("items", [])) == 1 and r["items"][0]["k"] == "Impl"), r.get("error"))
    for (key, what, line, src) in meta:
        ok, err = verdict[src]
        by_key.setdefault(key, []).append((ok, err, src, what, line))
    for key, lst in by_key.items():
        bad = [x for x in lst if not x[0]]
        chk.expect("R2", key, not bad, EXPAND, lst[0][4], "fragment of the wrong dialect for the context it is spliced into: the assembled impl item is not valid Rust",
                   found={"syn": bad[0][1], "assembled": bad[0][2][-260:]} if bad else None)


def r3(chk):
    repo = chk.repo
    chk.rule("R3", "enum bodies: every arm shape parses inside `match`; enum_main_code_block gives a valid body for every kind", floor=8)
    M = fn_table(repo, "enum_main_code_block")
    reqs, meta = [], []
    for lf in M["leaves"]:
        k = lf.get("ctx.kind")
        if lf.kind != "ok":
            continue
        txt = to_text(rep_src(lf.toks)) if lf.toks is not None else "@@NESTED@@"
        if lf.toks is None and lf.value and "enum_init_block(" not in str(lf.value):
            txt = "@@NESTED@@"
        body = txt.replace("@@NESTED@@", "{ __S :: __V => __D :: __V , }")
        src = f"fn f ( self , value : __S , other : & mut __D ) {{ {body} }}" if direction(k) == "Existing" else f"fn f ( self , value : __S ) -> __D {{ {body} }}"
        reqs.append({"as": "file", "src": src})
        meta.append((f"enum_main_code_block[{direction(k)}]", M["fn_line"], src))
    E = fn_table(repo, "render_enum_line", extra_opaque=("struct_init_block", "variant_destruct_block"))
    seen = set()
    for lf in E["leaves"]:
        if lf.kind != "ok" or lf.toks is None:
            continue
        arm = to_text(rep_src(lf.toks)).replace("@@NESTED@@", "").replace("@@INIT@@", "{ __b : __b , }")
        arm = re.sub(r"@@REP:[^@]*@@", "", arm)
        src = f"fn f ( ) {{ match __v {{ {arm} }} }}"
        if src in seen:
            continue
        seen.add(src)
        reqs.append({"as": "file", "src": src})
        d = direction(lf.get("ctx.kind"))
        short = re.sub(r"__\w+", "_", arm)[:60]
        meta.append((f"render_enum_line[{d}]:{short}", E["fn_line"], src))
    G = fn_table(repo, "render_enum_ghost_line")
    for lf in G["leaves"]:
        if lf.kind != "ok" or lf.toks is None:
            continue
        arm = to_text(rep_src(lf.toks))
        if not arm.strip():
            continue
        src = f"fn f ( ) {{ match __v {{ {arm} }} }}"
        if src in seen:
            continue
        seen.add(src)
        reqs.append({"as": "file", "src": src})
        short = re.sub(r"__\w+", "_", arm)[:60]
        meta.append((f"render_enum_ghost_line:{short}", G["fn_line"], src))
    # default case `_ #g`
    fi = repo.fn(EXPAND, "enum_init_block_inner")
    dc = [m for m in walk(fi.body) if m["k"] == "Macro" and m["last"] == "quote" and m["src"].replace(" ", "").startswith("_#")]
    chk.expect("R3", "default-case-template", len(dc) == 1, EXPAND, fi.line, "default case is not emitted as `_ <user tokens>`", found=[m["src"] for m in dc])
    res = parse_snippets(reqs)
    chk.unit("enum_snippets_parsed", len(reqs))
    for (key, line, src), r in zip(meta, res):
        chk.expect("R3", key, bool(r.get("ok")), EXPAND, line, "enum body / arm is not valid Rust", found={"syn": r.get("error"), "assembled": src[:200]})


def run(chk):
    cells, info = impl_table(chk.repo)
    chk.guard("R1", lambda: r1(chk, cells, info["quote_trait"]))
    chk.guard("R2", lambda: r2(chk, cells, info["quote_trait"]))
    chk.guard("R3", lambda: r3(chk))

    def r4():
        # R2/R3 splice user expressions as opaque well-formed expressions. That is only sound if no unsubstituted ~ / @ survives
        # (`~` and `@` are not expression tokens): the substitution contract of C10 is imported as a necessary condition.
        from ..core import Check
        from . import c10
        sub = Check("C10", chk.repo, chk.tier)
        sub.guard("R1", lambda: c10.r1(sub))
        sub.guard("R3", lambda: c10.r3(sub))
        chk.rule("R4", "no placeholder token can survive into the output: user expressions reach templates only through quote_action, whose substitution is total (C10.R1/R3)", floor=15)
        for r_, why in sub.inconclusive:
            chk.inconc("R4", why)
        for i in sub.instances:
            if i.rule not in ("R1", "R3"):
                continue
            if i.ok:
                chk.ok("R4", "subst:" + i.key, i.file, i.line)
            else:
                chk.bad("R4", "subst:" + i.key, i.file, i.line, i.what, i.expected, i.found)
    chk.guard("R4", r4)

    def typepath_contract():
        from ..core import Check
        from . import c04
        sub = Check("C04", chk.repo, chk.tier)
        sub.guard("R8", lambda: c04.r8_typepath_ctor(sub))
        chk.rule("R5", "a path interpolated as <path> <generics> is a valid type only if the path itself no longer carries its <..> (C04.R8)", floor=2)
        for r_, w_ in sub.inconclusive:
            chk.inconc("R5", w_)
        for i in sub.instances:
            if i.rule == "R8":
                if i.ok:
                    chk.ok("R5", "typepath:" + i.key, i.file, i.line)
                else:
                    chk.bad("R5", "typepath:" + i.key, i.file, i.line, i.what, i.expected, i.found)
    chk.guard("R5", typepath_contract)

    def r6():
        # a `where` clause assembled from several predicate lists needs a comma between them (a list without trailing comma followed by
        # another predicate is not a valid where clause)
        from ..src import walk as _walk
        chk.rule("R6", "where-clause templates never juxtapose two interpolated predicate lists without a separator", floor=1)
        n = 0
        for fi in chk.repo.fns(EXPAND):
            k = 0
            for node in _walk(fi.body):
                if node["k"] == "Macro" and node["last"] == "quote" and re.search(r"\bwhere\b", node.get("src", "")):
                    src = re.sub(r"\s+", " ", node["src"])
                    n += 1
                    key = f"{fi.qual}:where-template#{k}"
                    k += 1
                    juxt = re.search(r"\bwhere\s+#\s*\w+\s+#\s*\w+", src) is not None
                    chk.shape("R6", key, not juxt, juxt, EXPAND, node["line"], what="two predicate lists are spliced after `where` with nothing between them: unless the first ends in a comma the impl header does not parse", found=src[:100])
        if n == 0:
            chk.inconc("R6", "no quote! template containing `where` found in expand.rs (1 confirmed by hand)")
    chk.guard("R6", r6)

    def r7():
        # the source path of a nested parameterised #[parent] leaf is spliced verbatim into field expressions: it must be a well-formed
        # `.a.b.c` member chain (convert_parent_child_field, contract decided in C03.R10)
        from .c03 import parent_path_contract
        parent_path_contract(chk, "R7")
    chk.guard("R7", r7)
