"""Rule/instance bookkeeping, known findings, evidence and verdict lines."""
import json
import re
import os
import time

from .src import Inconclusive, Repo, VERIF

KNOWN_FILE = os.path.join(VERIF, "known_findings.json")


class Instance:
    __slots__ = ("rule", "key", "ok", "file", "line", "what", "expected", "found", "detail", "nontrivial")

    def __init__(self, rule, key, ok, file=None, line=None, what="", expected=None, found=None, detail=None, nontrivial=True):
        self.rule = rule
        self.key = key
        self.ok = ok
        self.file = file
        self.line = line
        self.what = what
        self.expected = expected
        self.found = found
        self.detail = detail
        self.nontrivial = nontrivial

    def as_dict(self):
        d = {"rule": self.rule, "key": self.key, "ok": self.ok}
        if self.file:
            d["file"] = self.file
        if self.line:
            d["line"] = self.line
        if self.what:
            d["what"] = self.what
        if self.expected is not None:
            d["expected"] = self.expected
        if self.found is not None:
            d["found"] = self.found
        if self.detail is not None:
            d["detail"] = self.detail
        return d


class Check:
    """One property's run: collects rule instances, inconclusives and analysed units."""

    def __init__(self, prop, repo, tier="quick"):
        self.prop = prop
        self.repo = repo
        self.tier = tier
        self.instances = []
        self.inconclusive = []      # (rule, reason)
        self.floors = {}            # rule -> min instance count
        self.rules = {}             # rule -> description
        self.units = {}             # free-form counts of what was analysed
        self.notes = []
        self.cross = {}             # cross-reference results (never decide)

    # -- registration -------------------------------------------------------
    def rule(self, rid, desc, floor=1):
        self.rules[rid] = desc
        self.floors[rid] = floor

    def ok(self, rule, key, file=None, line=None, detail=None, nontrivial=True):
        self.instances.append(Instance(rule, key, True, file, line, detail=detail, nontrivial=nontrivial))

    def bad(self, rule, key, file=None, line=None, what="", expected=None, found=None, detail=None):
        if re.search(r"(not evaluable|cannot evaluate|unexpected arity|expected one helper call)", what or ""):
            # the analyser could not interpret the construct: fail closed, but never as a violation claim
            self.inconc(rule, f"{key}: {what}: {str(found)[:120]}")
            return
        self.instances.append(Instance(rule, key, False, file, line, what, expected, found, detail))

    def expect(self, rule, key, cond, file=None, line=None, what="", expected=None, found=None, detail=None):
        if cond:
            self.ok(rule, key, file, line, detail)
        else:
            self.bad(rule, key, file, line, what, expected, found, detail)
        return cond

    def shape(self, rule, key, ok, bad, file=None, line=None, what="", expected=None, found=None):
        """Three-valued verdict for rules that recognise a code shape: recognised-good -> held; recognised-bad -> violation;
        anything else -> INCONCLUSIVE (a refactoring the checker does not understand is never reported as a violation)."""
        if ok:
            self.ok(rule, key, file, line)
        elif bad:
            self.bad(rule, key, file, line, what, expected, found)
        else:
            self.ok(rule, key + "/unrecognised-shape", file, line, nontrivial=False) if False else self.inconc(rule, f"{key}: unrecognised shape at {file}:{line}: {str(found)[:120]}")
        return ok

    def inconc(self, rule, reason):
        self.inconclusive.append((rule, reason))

    def guard(self, rule, fn):
        """Run fn(); an Inconclusive raised inside marks the rule inconclusive."""
        try:
            fn()
        except Inconclusive as e:
            self.inconc(rule, str(e))
        except Exception as e:  # analyser error: fail closed for this rule only
            import traceback
            tb = traceback.format_exc().strip().splitlines()
            self.inconc(rule, "analyser error: " + repr(e) + " @ " + (tb[-3].strip() if len(tb) >= 3 else ""))

    def unit(self, name, n=1):
        self.units[name] = self.units.get(name, 0) + n

    # -- verdict ------------------------------------------------------------
    def finish(self, t0, seed=0, level="other", explanation="", assumptions=None, trusted_base=None, not_decided=None):
        known = load_known()
        kn = {(k["property"], k["key"]): k for k in known if k.get("status") == "known"}
        lines = []
        # floors
        counts = {}
        for i in self.instances:
            counts[i.rule] = counts.get(i.rule, 0) + 1
        for r, fl in self.floors.items():
            if counts.get(r, 0) < fl and not any(x[0] == r for x in self.inconclusive):
                self.inconc(r, f"{counts.get(r, 0)} instances < floor {fl}")
        violations = []
        known_hits = []
        seen_keys = set()
        for i in self.instances:
            if i.ok:
                continue
            if (self.prop, i.key) in kn:
                if i.key not in seen_keys:
                    known_hits.append(i)
                seen_keys.add(i.key)
            else:
                violations.append(i)
        bad_keys = {i.key for i in self.instances if not i.ok}
        stale = [k for (p, k) in kn if p == self.prop and k not in bad_keys]
        scratch = os.path.realpath(self.repo.root) != "/repo" or bool(os.environ.get("O2O_SCRATCH_EVIDENCE"))
        ev_root = os.path.join(VERIF, ".cache", "scratch-evidence") if scratch else os.path.join(VERIF, "evidence")
        replay_dir = os.path.join(ev_root, "replay")
        for i in known_hits:
            lines.append(f"KNOWN-FINDING: property={self.prop} {i.key} :: {kn[(self.prop, i.key)].get('what', i.what)}")
        for k in stale:
            lines.append(f"note: known finding no longer observed (not an error): property={self.prop} {k}")
        n = 0
        seen_v = set()
        for i in violations:
            if i.key in seen_v:
                continue
            seen_v.add(i.key)
            os.makedirs(replay_dir, exist_ok=True)
            n += 1
            path = os.path.relpath(os.path.join(replay_dir, f"{self.prop}-{n}.json"), VERIF)
            with open(os.path.join(VERIF, path), "w") as fh:
                json.dump({"property": self.prop, "repo": self.repo.root, **i.as_dict(),
                           "rule_text": self.rules.get(i.rule, "")}, fh, indent=1)
            loc = f"{i.file}:{i.line}" if i.file else ""
            lines.append(f"VIOLATION property={self.prop} replay={path}")
            lines.append(f"  rule={i.rule} key={i.key} at {loc}: {i.what}" +
                         (f" expected={i.expected!r} found={i.found!r}" if i.expected is not None or i.found is not None else ""))
        for r, why in self.inconclusive:
            lines.append(f"INCONCLUSIVE property={self.prop} rule={r} reason={why}")

        total = len(self.instances)
        held = sum(1 for i in self.instances if i.ok)
        distinct = len({(i.rule, i.key) for i in self.instances if i.nontrivial})
        samples = []
        per_rule_seen = {}
        for i in self.instances:
            c = per_rule_seen.get(i.rule, 0)
            if c < 3:
                samples.append(i.as_dict())
                per_rule_seen[i.rule] = c + 1
        for i in violations[:10]:
            samples.append(i.as_dict())
        wall = time.time() - t0
        has_open = bool(known_hits) or bool(violations) or bool(self.inconclusive)
        ev_level = level if (level != "proof" or not has_open) else "other"
        cov = {
            "explanation": explanation,
            "rule": "every rule instance extracted from /repo's current source is one case; distinct = distinct (rule,key) pairs; all are non-trivial in the sense that each is a separate cell/site/obligation that can fail independently",
            "evaluations": total,
            "distinct_nontrivial": distinct,
            "obligations": total,
            "discharged": held,
            "exhaustive": not self.inconclusive,
            "samples": samples,
            "rules": {r: {"text": d, "floor": self.floors[r], "instances": counts.get(r, 0),
                          "held": sum(1 for i in self.instances if i.rule == r and i.ok)} for r, d in self.rules.items()},
            "units_analysed": self.units,
            "known_findings_hit": [i.key for i in known_hits],
            "inconclusive": [{"rule": r, "reason": w} for r, w in self.inconclusive],
            "checker_cmd": f"./check {self.prop} --tier {self.tier}",
            "trusted_base": trusted_base or ["syn 2.0.119 parser (front-end astdump)", "the rule engine /verif/o2ov",
                                             "rustc/syn/quote semantics of the constructs the rules interpret"],
            "not_decided": not_decided or [],
        }
        if self.cross:
            cov["cross_reference"] = self.cross
        if self.notes:
            cov["notes"] = self.notes
        ev = {
            "property_id": self.prop,
            "tier": self.tier,
            "seed": int(seed),
            "level": ev_level,
            "coverage": cov,
            "assumptions": assumptions or [],
            "wall_s": round(wall, 3),
            "violations": len(seen_v),
        }
        os.makedirs(ev_root, exist_ok=True)
        with open(os.path.join(ev_root, f"{self.prop}.json"), "w") as fh:
            json.dump(ev, fh, indent=1)
        code = 1 if violations else (2 if self.inconclusive else 0)
        summary = f"{self.prop}: {held}/{total} rule instances held, {len(known_hits)} known findings, {len(seen_v)} violations, {len(self.inconclusive)} inconclusive ({wall:.2f}s)"
        return code, lines, summary


def load_known():
    if not os.path.exists(KNOWN_FILE):
        return []
    with open(KNOWN_FILE) as fh:
        return json.load(fh)
