"""F1/F3/F5: decision-table extraction by partial evaluation over finite discriminants.

The evaluator walks the *syntax tree* of a function of /repo with typed symbolic inputs
(types are read from the repository's own struct/enum items).  Whenever control flow
depends on a finite discriminant of an input (an enum tag, an Option tag, a bool) that
the current cell has not fixed yet, the evaluator asks the driver for a decision; the
driver enumerates all values, so the result is the complete decision table
`cell -> residual token template`, with every hole resolved (def-use inlining through
lets, closures and repo helper fns) to an access path rooted at a function parameter.
No derive input is ever constructed and no code of /repo is executed: user-supplied
parts stay opaque symbols.
"""
import re

from .src import Inconclusive, render, render_pat, walk
from .quote import parse_template, QUOTE_MACROS

MAX_DEPTH = 12


# ---------------------------------------------------------------------------- types
def split_top(s, sep=","):
    out, depth, cur = [], 0, ""
    for ch in s:
        if ch in "<([":
            depth += 1
        elif ch in ">)]":
            depth -= 1
        if ch == sep and depth == 0:
            out.append(cur)
            cur = ""
        else:
            cur += ch
    if cur.strip():
        out.append(cur)
    return [x.strip() for x in out]


def parse_type(s):
    s = s.strip()
    s = re.sub(r"'\w+\s*", "", s)            # lifetimes
    s = s.replace("& ", "&").replace("&mut ", "&")
    while s.startswith("&"):
        s = s[1:].strip()
    if s.startswith("mut "):
        s = s[4:].strip()
    s = s.replace(" ", "")
    if s.startswith("Option<") and s.endswith(">"):
        return ("opt", parse_type(s[7:-1]))
    if (s.startswith("Result<") or s.startswith("syn::Result<")) and s.endswith(">"):
        return ("result", parse_type(split_top(s[s.index("<") + 1:-1])[0]))
    if s.startswith("Vec<") and s.endswith(">"):
        return ("vec", parse_type(s[4:-1]))
    if s.startswith("Punctuated<") and s.endswith(">"):
        return ("vec", parse_type(split_top(s[11:-1])[0]))
    if s.startswith("(") and s.endswith(")"):
        inner = s[1:-1]
        if not inner:
            return ("unit",)
        return ("tuple", [parse_type(x) for x in split_top(inner)])
    if s in ("bool",):
        return ("bool",)
    if s in ("usize", "u32", "u64", "i32", "isize", "u8"):
        return ("int",)
    if s in ("String", "str"):
        return ("str",)
    if s in ("TokenStream", "proc_macro2::TokenStream"):
        return ("toks",)
    base = s.split("<")[0].split("::")[-1]
    return ("named", base)


class TypeRegistry:
    def __init__(self, repo, files):
        self.structs = {}
        self.enums = {}
        self.aliases = {}
        for f in files:
            for it, _impl, cfgs in repo.items(f):
                if repo.is_test_item(cfgs):
                    continue
                if it["k"] == "Struct":
                    self.structs[it["name"]] = {x["name"]: parse_type(x["ty"]) for x in it["fields"]["fields"]}
                elif it["k"] == "Enum":
                    self.enums[it["name"]] = [(v["name"], [parse_type(x["ty"]) for x in v["fields"]["fields"]],
                                               [x["name"] for x in v["fields"]["fields"]], v["fields"]["kind"]) for v in it["variants"]]
                elif it["k"] == "TypeAlias":
                    self.aliases[it["name"]] = it["ty"]
        # external types the generator's tables branch on
        self.enums.setdefault("Member", [("Named", [("named", "Ident")], ["0"], "tuple"), ("Unnamed", [("named", "Index")], ["0"], "tuple")])
        self.structs.setdefault("Index", {"index": ("int",), "span": ("named", "Span")})
        self.enums.setdefault("TokenTree", [("Group", [("named", "Group")], ["0"], "tuple"), ("Ident", [("named", "Ident")], ["0"], "tuple"),
                                            ("Punct", [("named", "Punct")], ["0"], "tuple"), ("Literal", [("named", "Literal")], ["0"], "tuple")])
        self.enums.setdefault("Delimiter", [("Parenthesis", [], [], "unit"), ("Brace", [], [], "unit"), ("Bracket", [], [], "unit"), ("None", [], [], "unit")])

    def enum_variants(self, name):
        return self.enums.get(name)


# ---------------------------------------------------------------------------- values
class V:
    origin = None


class SymObj(V):
    def __init__(self, path, ty):
        self.path = path
        self.ty = ty
        self.origin = path

    def __repr__(self):
        return f"‹{self.path}›"


class Tag(V):
    def __init__(self, name, args=(), enum=None, origin=None, fields=None):
        self.name = name
        self.args = list(args)
        self.enum = enum
        self.origin = origin
        self.fields = fields  # names for struct-like variants

    def __repr__(self):
        return self.name + ("(" + ", ".join(map(repr, self.args)) + ")" if self.args else "")


class StructV(V):
    def __init__(self, name, fields, rest=None):
        self.name = name
        self.fields = fields
        self.rest = rest

    def __repr__(self):
        return self.name + "{" + ", ".join(f"{k}: {v!r}" for k, v in self.fields.items()) + "}"


class IterV(V):
    """A concrete iterator over known elements (only produced when Evaluator.concrete_iters is set): small-scope semantics of
    the std iterator adaptors, used to decide lookup contracts on short abstract vectors."""
    def __init__(self, elems):
        self.elems = list(elems)

    def __repr__(self):
        return "iter" + repr(self.elems)


class TupleV(V):
    def __init__(self, elems):
        self.elems = list(elems)

    def __repr__(self):
        return "(" + ", ".join(map(repr, self.elems)) + ")"


class ListV(V):
    def __init__(self, elems=None):
        self.elems = list(elems or [])

    def __repr__(self):
        return "[" + ", ".join(map(repr, self.elems)) + "]"


class Toks(V):
    def __init__(self, toks=None):
        self.toks = list(toks or [])

    def __repr__(self):
        return "«" + show_toks(self.toks) + "»"


class FIdent(V):
    """format_ident!(fmt, args)"""
    def __init__(self, fmt, args):
        self.fmt = fmt
        self.args = args

    def __repr__(self):
        return "fident(" + self.fmt + "; " + ", ".join(map(vkey, self.args)) + ")"


class Clos(V):
    def __init__(self, params, body, env, ev):
        self.params = params
        self.body = body
        self.env = env
        self.ev = ev


class FnRef(V):
    def __init__(self, name, ctor=None, enum=None):
        self.name = name
        self.ctor = ctor
        self.enum = enum


class Action(V):
    """replace_tilde_or_at_in_expr(action, at, tilde): user expression with substitutions"""
    def __init__(self, src, at, tilde):
        self.src = src
        self.at = at
        self.tilde = tilde

    def __repr__(self):
        return f"action({vkey(self.src)}; @={vkey(self.at)}; ~={vkey(self.tilde)})"


class Unit(V):
    def __repr__(self):
        return "()"


UNIT = Unit()


def vkey(v):
    """Canonical string of a value (used for summary names and comparisons)."""
    if isinstance(v, SymObj):
        return v.path
    if isinstance(v, Tag):
        if v.origin and not v.args:
            return v.name
        return v.name + ("(" + ", ".join(vkey(a) for a in v.args) + ")" if v.args else "")
    if isinstance(v, Toks):
        return "«" + show_toks(v.toks) + "»"
    if isinstance(v, (bool, int, str)):
        return repr(v) if not isinstance(v, bool) else ("true" if v else "false")
    if isinstance(v, StructV):
        return v.name + "{" + ", ".join(f"{k}: {vkey(x)}" for k, x in v.fields.items() if k != "span") + "}"
    if isinstance(v, TupleV):
        return "(" + ", ".join(vkey(x) for x in v.elems) + ")"
    if isinstance(v, ListV):
        return "[" + ", ".join(vkey(x) for x in v.elems) + "]"
    if isinstance(v, IterV):
        return "iter[" + ", ".join(vkey(x) for x in v.elems) + "]"
    if isinstance(v, Clos):
        caps = clos_captures(v)
        return "|" + ",".join(render_pat(p) for p in v.params) + "| " + render(v.body) + ("[" + ", ".join(f"{k}={x}" for k, x in caps) + "]" if caps else "")
    if v is None:
        return "∅"
    if isinstance(v, FnRef):
        return v.name
    if isinstance(v, (FIdent, Action, Unit)):
        return repr(v)
    return type(v).__name__


def clos_captures(c):
    from .src import walk
    params = set()

    def pnames(p):
        if p["k"] == "PIdent":
            params.add(p["name"])
        for key in ("elems", "cases"):
            for x in p.get(key, []):
                pnames(x)
        if "pat" in p and isinstance(p["pat"], dict):
            pnames(p["pat"])
        for f in p.get("fields", []):
            pnames(f["pat"])
    for p in c.params:
        pnames(p)
    out = []
    seen = set()
    for n in walk(c.body):
        if n["k"] == "Path" and len(n["segs"]) == 1:
            nm = n["segs"][0]
            if nm in c.env and nm not in params and nm not in seen:
                seen.add(nm)
                val = c.env[nm]
                if isinstance(val, Clos):
                    continue
                out.append((nm, vkey(val)))
    return out


def show_toks(toks):
    out = []
    for t in toks:
        k = t[0]
        if k == "lit":
            out.append(t[1] + ("\x00" if len(t) > 2 and t[2] else ""))
        elif k == "sym":
            out.append("‹" + t[1] + "›")
        elif k == "index":
            out.append("‹idx:" + t[1] + "›")
        elif k == "fident":
            out.append("‹" + t[1] + "›")
        elif k == "group":
            from .quote import CLOSE
            out.append(t[1] + show_toks(t[2]) + CLOSE[t[1]])
        elif k == "action":
            out.append("‹" + t[1] + "›")
        elif k == "rep":
            out.append("‹rep:" + t[1] + "›")
        elif k == "opt":
            out.append("‹" + t[1] + "?›")
        else:
            out.append(str(t))
    return " ".join(out).replace("\x00 ", "").replace("\x00", "")


# ---------------------------------------------------------------------------- control
class NeedDecision(Exception):
    def __init__(self, atom, domain):
        self.atom = atom
        self.domain = domain


class PanicReached(Exception):
    def __init__(self, kind, marker, line):
        self.kind = kind
        self.marker = marker
        self.line = line


class ReturnEx(Exception):
    def __init__(self, value):
        self.value = value


class ContinueEx(Exception):
    pass


class BreakEx(Exception):
    pass


class Unsupported(Exception):
    pass


OTHER_STR = "\x00other"


def pat_strs(p):
    k = p["k"]
    if k == "PLit" and p["lit"]["lk"] == "str":
        yield p["lit"]["v"]
    elif k == "POr":
        for c in p["cases"]:
            yield from pat_strs(c)
    elif k == "PIdent" and "sub" in p:
        yield from pat_strs(p["sub"])
    elif k in ("PRef", "PType"):
        yield from pat_strs(p["pat"])
    elif k == "PTuple" or k == "PTupleStruct":
        for c in p["elems"]:
            yield from pat_strs(c)


# ---------------------------------------------------------------------------- evaluator
class Evaluator:
    def __init__(self, repo, files, opaque=(), max_depth=MAX_DEPTH, alias=None, shallow=False, transparent=()):
        self.shallow = shallow
        self.skip_loops = False
        self.inline_files = None  # if set: only fns defined in these files are inlined (others summarised), except unit-enum helpers / transparent
        self.strict = False       # strict: never fall back to an automatic summary when inlining fails
        self.transparent = set(transparent)
        self.alias = dict(alias or {})
        self.repo = repo
        self.files = files
        self.types = TypeRegistry(repo, files)
        self.opaque = set(opaque)      # fn/method names never inlined (summarised)
        self.decisions = {}
        self.effects = []
        self.store = {}
        self.assign_log = []
        self.inferred = {}
        self.invoked = set()
        self.visited = set()
        self.depth = 0
        self.impl_stack = []
        self.inline_helpers = True
        self.max_depth = max_depth
        self.summaries = set()
        self.fn_index = {}
        self.method_index = {}
        self.index_impls = {}
        self.trait_impls = {}
        for f in files:
            for fi in repo.fns(f):
                if fi.cfg_feature() == "syn2":
                    continue
                if fi.impl is None:
                    self.fn_index.setdefault(fi.name, fi)
                else:
                    st = fi.impl["self_ty"].replace(" ", "").split("<")[0]
                    tr = (fi.impl.get("trait") or "").replace(" ", "")
                    mm = re.match(r"Index<&?(\w+)>$", tr)
                    if mm and fi.name == "index":
                        self.index_impls[mm.group(1)] = fi
                        continue
                    if tr and tr.split("<")[0] in ("Parse", "From", "PartialEq", "Hash", "Display", "Eq"):
                        self.trait_impls.setdefault((st, tr, fi.name), fi)
                        continue
                    self.method_index.setdefault((st, fi.name), fi)

    # -- decisions ----------------------------------------------------------
    def decide(self, atom, domain):
        if atom in self.decisions:
            return self.decisions[atom]
        raise NeedDecision(atom, list(domain))

    def tag_of(self, v):
        """Resolve a symbolic enum/option/bool value to a concrete Tag/bool (asking for a decision)."""
        if isinstance(v, SymObj):
            ty = v.ty
            if ty == ("named", "?") and v.path in self.inferred:
                ty = self.inferred[v.path]
            if ty[0] == "opt":
                d = self.decide(v.path, ["None", "Some"])
                if d == "None":
                    return Tag("None", [], "Option", v.path)
                return Tag("Some", [SymObj(v.path + "!", ty[1])], "Option", v.path)
            if ty[0] == "bool":
                return self.decide(v.path, [False, True])
            if ty[0] == "named":
                vs = self.types.enum_variants(ty[1])
                if vs:
                    d = self.decide(v.path, [x[0] for x in vs])
                    for name, ptys, pnames, kind in vs:
                        if name == d:
                            args = [SymObj(f"{v.path}#{name}.{pn}", pt) for pn, pt in zip(pnames, ptys)]
                            return Tag(name, args, ty[1], v.path, fields=pnames if kind == "named" else None)
                    raise Inconclusive(f"decision {d} not a variant of {ty[1]}")
        return v

    # -- entry --------------------------------------------------------------
    def run_fn(self, fi, args):
        """Evaluate fn `fi` with arg values (dict name->V)."""
        env = dict(args)
        self.visited.add(("fn", fi.line, 0))
        self.impl_stack.append(fi.impl.get("self_ty") if isinstance(getattr(fi, "impl", None), dict) else None)
        try:
            return self.eval_block(fi.body, env)
        except ReturnEx as r:
            return r.value
        finally:
            self.impl_stack.pop()

    def sym_params(self, fi, prefix=""):
        """Typed symbolic values for every parameter of fn fi."""
        out = {}
        for inp in fi.node["sig"]["inputs"]:
            if inp.get("self"):
                st = fi.impl["self_ty"] if fi.impl else "Self"
                out["self"] = SymObj(prefix + "self", parse_type(st))
            else:
                name = inp["pat"].get("name", "_")
                out[name] = SymObj(prefix + name, parse_type(inp["ty"]))
        return out

    # -- blocks / statements ------------------------------------------------
    def eval_block(self, b, env):
        env = dict(env)
        last = UNIT
        stmts = b["stmts"]
        for i, s in enumerate(stmts):
            k = s["k"]
            if any(a["path"] == "cfg" and 'feature = "syn2"' in a["tokens"] and "not" not in a["tokens"] for a in (s.get("attrs") or [])):
                continue  # the syn2 half of a cfg pair (C18 compares the halves); the default configuration is analysed
            if k == "ItemStmt" and isinstance(s.get("item"), dict) and s["item"].get("k") == "Fn" and isinstance(s["item"].get("body"), dict):
                # a nested fn is callable like a non-capturing closure
                it_ = s["item"]
                env[it_["name"]] = Clos([i_["pat"] for i_ in it_["sig"]["inputs"] if not i_.get("self")], it_["body"], {}, self)
                continue
            if k == "ItemStmt" and isinstance(s.get("item"), dict) and s["item"].get("k") in ("Const", "Static") and isinstance(s["item"].get("expr"), dict):
                try:
                    env[s["item"]["name"]] = self.eval(s["item"]["expr"], env)
                except Unsupported:
                    pass
                continue
            if k == "Let":
                if "init" in s:
                    v = self.eval(s["init"], env)
                else:
                    v = SymObj("uninit", ("named", "?"))
                if not self.bind(s["pat"], v, env):
                    if "else" in s:
                        self.eval(s["else"], env)
                    raise Unsupported("refutable let failed: " + render_pat(s["pat"]))
                last = UNIT
            elif k == "ExprStmt":
                v = self.eval(s["expr"], env)
                last = UNIT if s.get("semi") else v
            elif k == "ItemStmt":
                last = UNIT
            else:
                raise Unsupported("stmt " + k)
        # propagate mutations of outer variables
        self._last_env = env
        return last

    # -- patterns -----------------------------------------------------------
    def bind(self, p, v, env):
        """Match value v against pattern p, adding bindings to env. Returns bool."""
        k = p["k"]
        if k == "PWild" or k == "PRest":
            return True
        if k == "PIdent":
            # an identifier pattern may be a unit-like constant (None) — handled as path
            if p["name"] == "None" and "sub" not in p:
                if isinstance(v, SymObj) and v.ty == ("named", "?") and v.path not in self.inferred:
                    self.inferred[v.path] = ("opt", ("named", "?"))
                t = self.tag_of(v)
                return isinstance(t, Tag) and t.name == "None"
            if "sub" in p:
                if not self.bind(p["sub"], v, env):
                    return False
            env[p["name"]] = v
            return True
        if k == "PRef":
            return self.bind(p["pat"], v, env)
        if k == "PType":
            return self.bind(p["pat"], v, env)
        if k == "PTuple":
            if isinstance(v, SymObj) and v.ty[0] == "tuple":
                v = TupleV([SymObj(f"{v.path}.{i}", t) for i, t in enumerate(v.ty[1])])
            if isinstance(v, SymObj):
                v = TupleV([SymObj(f"{v.path}.{i}", ("named", "?")) for i in range(len(p["elems"]))])
            if not isinstance(v, TupleV):
                raise Unsupported("tuple pattern on " + vkey(v))
            elems = p["elems"]
            if len(elems) != len(v.elems):
                raise Unsupported("tuple arity")
            # evaluate left to right; all must match
            for sp, sv in zip(elems, v.elems):
                if not self.bind(sp, sv, env):
                    return False
            return True
        if k == "POr":
            for c in p["cases"]:
                e2 = dict(env)
                if self.bind(c, v, e2):
                    env.update(e2)
                    return True
            return False
        if k == "PLit":
            lv = p["lit"]["v"]
            if isinstance(v, SymObj) and isinstance(self.decisions.get(v.path), str):
                v = self.decisions[v.path]
            if isinstance(v, SymObj):
                if isinstance(lv, bool) and v.ty == ("named", "?"):
                    return self.decide(v.path, [False, True]) == lv
                t = self.tag_of(v)
                if isinstance(t, bool):
                    return t == lv
                # string match on symbolic string: decision atom per literal
                return self.decide(f"{v.path}=={lv!r}", [False, True])
            if isinstance(v, bool):
                return v == lv
            return v == lv
        if k in ("PPath", "PTupleStruct", "PStruct"):
            name = p["path"].split("::")[-1]
            if isinstance(v, StructV) and k == "PStruct":
                if name != v.name:
                    return False
                for f in p["fields"]:
                    if f["member"] not in v.fields:
                        raise Unsupported("field " + f["member"])
                    if not self.bind(f["pat"], v.fields[f["member"]], env):
                        return False
                return True
            if isinstance(v, SymObj) and v.ty == ("named", "?") and k == "PStruct" and name in self.types.structs:
                v = SymObj(v.path, ("named", name))
            if isinstance(v, SymObj) and v.ty[0] == "named" and k == "PStruct" and v.ty[1] in self.types.structs and name == v.ty[1]:
                for f in p["fields"]:
                    if not self.bind(f["pat"], self.field(v, f["member"]), env):
                        return False
                return True
            if isinstance(v, SymObj) and not self._is_enumish(v):
                segs_ = p["path"].split("::")
                if len(segs_) >= 2 and self.types.enum_variants(segs_[-2]):
                    self.inferred[v.path] = ("named", segs_[-2])
                    v = SymObj(v.path, ("named", segs_[-2]))
                elif name in ("Some", "None") and len(segs_) == 1:
                    self.inferred[v.path] = ("opt", ("named", "?"))
                    v = SymObj(v.path, ("opt", ("named", "?")))
                elif name in ("Named", "Unnamed") and len(segs_) == 1:
                    self.inferred[v.path] = ("named", "Member")
                    v = SymObj(v.path, ("named", "Member"))
                elif name in ("Ok", "Err") and len(segs_) == 1:
                    d_ = self.decide(v.path, ["None", "Some"])
                    if (d_ == "Some") != (name == "Ok"):
                        return False
                    if k == "PTupleStruct" and p["elems"]:
                        return self.bind(p["elems"][0], SymObj(v.path + "!", ("named", "?")), env)
                    return True
                elif v.ty[0] == "named" and v.ty[1] == name and k == "PTupleStruct":
                    # tuple struct pattern on a value of that struct type
                    for i_, sp in enumerate(p["elems"]):
                        if not self.bind(sp, self.field(v, str(i_)), env):
                            return False
                    return True
                elif len(segs_) >= 2 and segs_[-2][:1].isupper():
                    # unknown external enum: one boolean atom per tested variant (first-match order preserved)
                    if not self.decide(f"{v.path} is {segs_[-2]}::{name}", [False, True]):
                        return False
                    if k == "PTupleStruct":
                        for i_, sp in enumerate(x for x in p["elems"] if x["k"] != "PRest"):
                            if not self.bind(sp, SymObj(f"{v.path}#{name}.{i_}", ("named", "?")), env):
                                return False
                    elif k == "PStruct":
                        for f_ in p["fields"]:
                            if not self.bind(f_["pat"], SymObj(f"{v.path}#{name}.{f_['member']}", ("named", "?")), env):
                                return False
                    return True
            t = self.tag_of(v)
            if isinstance(t, StructV) and k == "PStruct":
                return self.bind(p, t, env)
            if not isinstance(t, Tag):
                raise Unsupported(f"enum pattern {render_pat(p)} on {vkey(v)}")
            if t.name != name:
                return False
            if k == "PPath":
                return True
            if k == "PTupleStruct":
                elems = p["elems"]
                if any(e["k"] == "PRest" for e in elems):
                    elems = [e for e in elems if e["k"] != "PRest"]
                args = t.args
                if len(elems) > len(args):
                    raise Unsupported("pattern arity")
                for sp, sv in zip(elems, args):
                    if not self.bind(sp, sv, env):
                        return False
                return True
            # PStruct on a tag
            if len(t.args) == 1 and isinstance(t.args[0], (SymObj, StructV)) and t.fields is None:
                # tuple variant holding a struct: `ApplicableAttr::Field(MemberAttrCore{..})` is PTupleStruct; not here
                pass
            names = t.fields or []
            for f in p["fields"]:
                if f["member"] in names:
                    if not self.bind(f["pat"], t.args[names.index(f["member"])], env):
                        return False
                else:
                    raise Unsupported("variant field " + f["member"])
            return True
        raise Unsupported("pattern " + k)

    # -- field access ---------------------------------------------------------
    def field(self, base, name):
        if isinstance(base, StructV):
            if name in base.fields:
                return base.fields[name]
            if base.rest is not None:
                return self.field(base.rest, name)
            raise Unsupported(f"no field {name} in {base.name}")
        if isinstance(base, TupleV):
            return base.elems[int(name)]
        if isinstance(base, SymObj):
            if base.path + "." + name in self.store:
                return self.store[base.path + "." + name]
            ty = base.ty
            if ty[0] == "named" and ty[1] in self.types.structs:
                fty = self.types.structs[ty[1]].get(name, ("named", "?"))
                return SymObj(base.path + "." + name, fty)
            if ty[0] == "tuple" and name.isdigit() and int(name) < len(ty[1]):
                return SymObj(base.path + "." + name, ty[1][int(name)])
            return SymObj(base.path + "." + name, ("named", "?"))
        if isinstance(base, Tag) and base.name in ("Named", "Unnamed") and base.args:
            return self.field(base.args[0], name)
        if isinstance(base, (Toks, Tag, FIdent)):
            return SymObj("(" + vkey(base) + ")." + name, ("named", "?"))
        raise Unsupported(f"field {name} on {vkey(base)}")

    # -- tokens ---------------------------------------------------------------
    def to_toks(self, v):
        if isinstance(v, Toks):
            return list(v.toks)
        if isinstance(v, SymObj):
            if v.ty[0] == "opt":
                if v.path in self.decisions:
                    return self.to_toks(self.tag_of(v))
                return [("opt", v.path)]
            return [("sym", v.path)]
        if isinstance(v, Tag):
            if v.name == "None":
                return []
            if v.name in ("Some", "Named", "Unnamed") and len(v.args) == 1:
                return self.to_toks(v.args[0])
            if v.name in ("Member::Named", "Member::Unnamed"):
                return self.to_toks(v.args[0])
            raise Unsupported("to_tokens of tag " + v.name)
        if isinstance(v, StructV) and v.name == "Index":
            return [("index", vkey(v.fields["index"]))]
        if isinstance(v, FIdent):
            return [("fident", repr(v))]
        if isinstance(v, Action):
            return [("action", repr(v))]
        if isinstance(v, (str, int)) and not isinstance(v, bool):
            return [("lit", str(v))]
        raise Unsupported("to_tokens of " + vkey(v))

    def quote(self, m, env):
        tpl = parse_template(m["tokens"])
        return Toks(self.subst(tpl, env))

    def subst(self, tpl, env):
        out = []
        for t in tpl:
            if t["t"] == "hole":
                if t["name"] not in env:
                    raise Unsupported("unbound hole #" + t["name"])
                out.extend(self.to_toks(env[t["name"]]))
            elif t["t"] == "rep":
                hs = [x for x in t["inner"] if x["t"] == "hole"]
                if len(hs) == 1 and len(t["inner"]) == 1:
                    v = env.get(hs[0]["name"])
                    if isinstance(v, ListV):
                        for idx, el in enumerate(v.elems):
                            if idx and t["sep"]:
                                out.append(("lit", t["sep"]))
                            out.extend(self.to_toks(el))
                    elif isinstance(v, SymObj):
                        out.append(("rep", v.path + ("/" + t["sep"] if t["sep"] else "")))
                    else:
                        raise Unsupported("repetition over " + vkey(v))
                else:
                    names = ",".join(vkey(env.get(h["name"])) for h in hs)
                    out.append(("rep", names))
            elif t["t"] == "group":
                out.append(("group", t["d"], self.subst(t["ts"], env)))
            elif t["t"] == "punct":
                out.append(("lit", t["v"], bool(t.get("joint"))))
            else:
                out.append(("lit", t["v"]))
        return out

    # -- calls ------------------------------------------------------------------
    def call_closure(self, c, args):
        if isinstance(c, FnRef):
            if c.ctor:
                return Tag(c.ctor, args, c.enum or {"Some": "Option", "Ok": "Result", "Err": "Result", "Named": "Member", "Unnamed": "Member"}.get(c.ctor))
            if c.name == "TokenStream::new":
                return Toks([])
            return self.call_fn(c.name, args)
        if isinstance(c, SymObj):
            self.effects.append(("call", c.path, [vkey(a) for a in args]))
            return SymObj(c.path + "(" + ", ".join(self.argkey(a) for a in args) + ")", ("named", "?"))
        if not isinstance(c, Clos):
            raise Unsupported("call of non-closure " + vkey(c))
        if c.body.get("line"):
            self.invoked.add(c.body["line"])
        env = dict(c.env)
        for p, a in zip(c.params, args):
            if not self.bind(p, a, env):
                raise Unsupported("closure param")
        try:
            return self.eval(c.body, env)
        except ReturnEx as r:
            return r.value

    def summary(self, name, recv, args, fi=None, ret=None):
        if fi is not None and name == "replace_tilde_or_at_in_expr" and len(args) == 3:
            # canonical argument order (input, at, tilde) whatever order the parameters are declared in (roles are read off their names)
            pn = [p_ for p_ in fi.params if p_ != "self"]
            if len(pn) == 3:
                at_i = [i for i, n_ in enumerate(pn) if re.search(r"(^|_)at(_|$)", n_)]
                ti_i = [i for i, n_ in enumerate(pn) if "tilde" in n_]
                if len(at_i) == 1 and len(ti_i) == 1 and at_i != ti_i:
                    in_i = [i for i in range(3) if i not in (at_i[0], ti_i[0])][0]
                    args = [args[in_i], args[at_i[0]], args[ti_i[0]]]
        if name == "quote_action":
            # canonical form quote_action(<action>, <postfix>, ctx) whether it is a free function or a method of the context
            items = ([recv] if recv is not None else []) + list(args)
            ctxs = [a for a in items if isinstance(a, SymObj) and (a.path.split(".")[-1] in ("ctx", "self", "new_ctx") or a.ty == ("named", "ImplContext"))]
            if len(ctxs) == 1 and len(items) == 3:
                args = [a for a in items if a is not ctxs[0]] + [ctxs[0]]
                recv = None
        key = (vkey(recv) + "." if recv is not None else "") + name + "(" + ", ".join(self.argkey(a) for a in args) + ")"
        self.summaries.add(key)
        self.effects.append(("summary", key))
        key = self.alias.get(key, key)
        ty = ret
        if ty is None and fi is not None:
            out_ty = fi.node["sig"]["output"] or "()"
            if fi.impl is not None:
                out_ty = re.sub(r"\bSelf\b", fi.impl["self_ty"].split("<")[0].strip(), out_ty)
            ty = parse_type(out_ty)
        return SymObj(key, ty or ("named", "?"))

    def argkey(self, a):
        if isinstance(a, Tag) and a.origin:
            return a.origin
        return vkey(a)

    def call_fn(self, name, args, node=None):
        fi = self.fn_index.get(name)
        if fi is None:
            raise Unsupported("unknown fn " + name)
        if name in self.opaque or (self.shallow and name not in self.transparent and not (self.inline_helpers and self.small_pure(fi))) or \
                (self.inline_files is not None and fi.file not in self.inline_files and name not in self.transparent and not (self.inline_helpers and self.small_pure(fi))):
            return self.summary(name, None, args, fi)
        try:
            return self.inline(fi, None, args)
        except Unsupported as u:
            if self.strict:
                raise
            self.summaries.add(f"auto:{name} ({u})")
            return self.summary(name, None, args, fi)

    def small_pure(self, fi):
        """A helper outside the inlined files that is nevertheless evaluated in place: straight-line / branching code without loops,
        token templates or parsing (so that extracting a helper function does not change what the analysis sees)."""
        c = getattr(fi, "_small_pure", None)
        if c is None:
            c = True
            n = 0
            for x in walk(fi.body):
                n += 1
                if x["k"] in ("For", "While", "Loop") or (x["k"] == "Macro" and x.get("last") not in ("matches", "unreachable", "panic", "todo", "format", "vec")):
                    c = False
                    break
            sig = fi.node["sig"]
            if n > 160 or any(re.search(r"ParseStream|ParseBuffer|&\s*mut\b|&\s*'\w+\s+mut\b", i.get("ty") or "") for i in sig["inputs"] if not i.get("self")) \
                    or re.search(r"\bResult\b", sig.get("output") or "") or any(i.get("self") and i.get("mut") for i in sig["inputs"]):
                c = False
            try:
                fi._small_pure = c
            except Exception:
                pass
        return c

    def inline(self, fi, recv, args):
        if self.depth >= self.max_depth:
            raise Unsupported("inline depth")
        env = {}
        params = fi.node["sig"]["inputs"]
        ai = 0
        for inp in params:
            if inp.get("self"):
                env["self"] = recv
            else:
                if ai >= len(args):
                    raise Unsupported("arity " + fi.name)
                if not self.bind(inp["pat"], args[ai], env):
                    raise Unsupported("param bind")
                ai += 1
        self.depth += 1
        self.visited.add(("fn", fi.line, 0))
        self.impl_stack.append(fi.impl.get("self_ty") if isinstance(fi.impl, dict) else None)
        try:
            try:
                return self.eval_block(fi.body, env)
            except ReturnEx as r:
                return r.value
        finally:
            self.depth -= 1
            self.impl_stack.pop()

    def method(self, recv, name, args, node, env):
        # repo-defined methods first
        tyname = None
        if isinstance(recv, SymObj) and recv.ty[0] == "named":
            tyname = recv.ty[1]
        elif isinstance(recv, Tag) and recv.enum:
            tyname = recv.enum
        elif isinstance(recv, StructV):
            tyname = recv.name
        if tyname and (tyname, name) in self.method_index:
            fi = self.method_index[(tyname, name)]
            unit_enum = tyname in self.types.enums and all(x[3] == "unit" for x in self.types.enums[tyname])
            if name in self.opaque or f"{tyname}::{name}" in self.opaque or (self.shallow and not unit_enum and name not in self.transparent and not (self.inline_helpers and self.small_pure(fi))) or \
                    (self.inline_files is not None and fi.file not in self.inline_files and not unit_enum and name not in self.transparent
                     and not (self.inline_helpers and self.small_pure(fi))):
                return self.summary(name, recv, args, fi)
            saved = (dict(self.decisions),)
            try:
                return self.inline(fi, recv, args)
            except Unsupported as u:
                if self.strict:
                    raise
                # fall back to a typed summary of the callee (modular analysis)
                self.summaries.add(f"auto:{tyname}::{name} ({u})")
                return self.summary(name, recv, args, fi)
        return self.std_method(recv, name, args, node, env)

    def std_method(self, recv, name, args, node, env):
        # identity-like
        if name in ("clone", "as_ref", "as_mut", "borrow", "to_owned", "into", "iter", "as_str", "cloned", "copied", "deref") and not args:
            if name == "iter" and isinstance(recv, SymObj):
                return SymObj(recv.path + ".iter()", ("iter", recv.ty))
            if name in ("iter", "into_iter") and isinstance(recv, ListV) and getattr(self, "concrete_iters", False):
                return IterV(recv.elems)
            if name in ("clone", "to_owned") and type(recv) is ListV:
                c = ListV(recv.elems)  # a clone is a distinct vector: later pushes to either must not show in the other
                c.origin = recv.origin
                return c
            return recv
        if name == "to_token_stream" or name == "into_token_stream":
            return Toks(self.to_toks(recv))
        if name == "to_string":
            if isinstance(recv, Toks):
                return SymObj("str(" + show_toks(recv.toks) + ")", ("str",))
            if isinstance(recv, SymObj):
                return SymObj(recv.path + ".to_string()", ("str",))
        # bool
        if isinstance(recv, bool) or (isinstance(recv, SymObj) and recv.ty[0] == "bool"):
            b = self.tag_of(recv) if isinstance(recv, SymObj) else recv
            if name == "then_some":
                return Tag("Some", [args[0]], "Option") if b else Tag("None", [], "Option")
            if name == "then":
                return Tag("Some", [self.call_closure(args[0], [])], "Option") if b else Tag("None", [], "Option")
            if name == "not":
                return not b
        # Option
        if isinstance(recv, SymObj) and recv.ty == ("named", "?") and name in ("is_some", "is_none", "unwrap_or", "map_or", "is_some_and", "and_then", "or_else",
                                                                                  "unwrap_or_default", "unwrap_or_else", "ok_or", "is_none_or", "map_or_else"):
            recv = SymObj(recv.path, ("opt", ("named", "?")))
        is_opt = (isinstance(recv, Tag) and recv.name in ("Some", "None")) or (isinstance(recv, SymObj) and recv.ty[0] == "opt")
        if is_opt:
            if name in ("is_some", "is_none", "map", "or_else", "unwrap_or", "map_or", "unwrap", "expect", "and_then", "is_some_and",
                        "unwrap_or_default", "unwrap_or_else", "or", "map_or_else", "filter", "ok_or", "is_none_or", "then_some"):
                t = self.tag_of(recv)
                some = t.name == "Some"
                inner = t.args[0] if some else None
                if name == "is_some":
                    return some
                if name == "is_none":
                    return not some
                if name == "map":
                    return Tag("Some", [self.call_closure(args[0], [inner])], "Option") if some else t
                if name == "and_then":
                    return self.call_closure(args[0], [inner]) if some else t
                if name == "or_else":
                    return t if some else self.call_closure(args[0], [])
                if name == "or":
                    return t if some else args[0]
                if name == "unwrap_or":
                    return inner if some else args[0]
                if name == "unwrap_or_else":
                    return inner if some else self.call_closure(args[0], [])
                if name == "unwrap_or_default":
                    if some:
                        return inner
                    return SymObj("Default::default()", ("named", "?"))
                if name == "map_or":
                    return self.call_closure(args[1], [inner]) if some else args[0]
                if name == "map_or_else":
                    return self.call_closure(args[1], [inner]) if some else self.call_closure(args[0], [])
                if name in ("unwrap", "expect"):
                    if some:
                        return inner
                    raise PanicReached("unwrap", render(node["recv"]) if node else "?", node["mline"] if node else 0)
                if name == "is_some_and":
                    if not some:
                        return False
                    return self.truth(self.call_closure(args[0], [inner]))
                if name == "is_none_or":
                    if not some:
                        return True
                    return self.truth(self.call_closure(args[0], [inner]))
                if name == "filter":
                    if not some:
                        return t
                    return t if self.truth(self.call_closure(args[0], [inner])) else Tag("None", [], "Option")
        if isinstance(recv, IterV):
            return self.iter_method(recv, name, args)
        # lists
        if isinstance(recv, ListV):
            if name in ("sort_by", "sort", "sort_by_key", "sort_unstable_by", "sort_unstable", "reverse", "dedup"):
                self.effects.append(("list", name))
                return UNIT
            if name in ("iter", "into_iter", "iter_mut"):
                if getattr(self, "concrete_iters", False):
                    return IterV(recv.elems)
                return SymObj("iter(" + vkey(recv) + ")", ("iter", ("named", "?")))
            if getattr(self, "concrete_iters", False) and name in ("first", "last", "get"):
                if name == "get":
                    i = args[0]
                    if isinstance(i, int) and not isinstance(i, bool):
                        return Tag("Some", [recv.elems[i]], "Option") if 0 <= i < len(recv.elems) else Tag("None", [], "Option")
                elif recv.elems:
                    return Tag("Some", [recv.elems[0 if name == "first" else -1]], "Option")
                else:
                    return Tag("None", [], "Option")
            if name == "push":
                recv.elems.append(args[0])
                return UNIT
            if name == "is_empty":
                return len(recv.elems) == 0
            if name == "len":
                return len(recv.elems)
            if name == "extend":
                if isinstance(args[0], ListV):
                    recv.elems.extend(args[0].elems)
                    return UNIT
                recv.elems.append(("extend", args[0]))
                return UNIT
        if isinstance(recv, Toks) and name == "is_empty":
            if all(t[0] == "lit" for t in recv.toks):
                return len(recv.toks) == 0
            if any(t[0] == "lit" for t in recv.toks):
                return False  # at least one literal token is certainly there
        if isinstance(recv, SymObj) and recv.path == "Default::default()" and name in ("is_empty", "len"):
            return True if name == "is_empty" else 0
        # a symbolic string that a match has already decided: string predicates on it are concrete
        if isinstance(recv, SymObj) and isinstance(self.decisions.get(recv.path), str) and self.decisions[recv.path] != OTHER_STR \
                and name in ("starts_with", "ends_with", "contains", "eq", "ne") and len(args) == 1 and isinstance(args[0], str):
            sv = self.decisions[recv.path]
            return {"starts_with": sv.startswith(args[0]), "ends_with": sv.endswith(args[0]), "contains": args[0] in sv,
                    "eq": sv == args[0], "ne": sv != args[0]}[name]
        # effects on symbolic objects
        if isinstance(recv, SymObj):
            self.effects.append((recv.path, name, [vkey(a) for a in args]))
            r = SymObj(recv.path + "." + name + "(" + ", ".join(self.argkey(a) for a in args) + ")", self.std_ret(recv, name))
            return r
        if isinstance(recv, (Tag, Toks, ListV, TupleV, StructV, FIdent)) or isinstance(recv, (str, int)):
            self.effects.append((vkey(recv)[:60], name, [vkey(a)[:60] for a in args]))
            return SymObj("(" + vkey(recv) + ")." + name + "(" + ", ".join(self.argkey(a) for a in args) + ")", ("named", "?"))
        raise Unsupported(f"method {name} on {vkey(recv)}")

    def iter_method(self, it, name, args):
        some = lambda v: Tag("Some", [v], "Option")
        none = Tag("None", [], "Option")
        def call(f, *a):
            if isinstance(f, Clos):
                return self.call_closure(f, list(a))
            raise Unsupported("iterator adaptor argument is not a closure: " + vkey(f))
        el = it.elems
        if name in ("iter", "into_iter", "by_ref", "cloned", "copied", "peekable", "fuse"):
            return it
        if name == "filter":
            return IterV([x for x in el if self.truth(call(args[0], x))])
        if name == "map":
            return IterV([call(args[0], x) for x in el])
        if name == "filter_map":
            out = []
            for x in el:
                r = call(args[0], x)
                r = self.tag_of(r) if isinstance(r, SymObj) else r
                if isinstance(r, Tag) and r.name == "Some":
                    out.append(r.args[0])
                elif not (isinstance(r, Tag) and r.name == "None"):
                    raise Unsupported("filter_map closure result " + vkey(r))
            return IterV(out)
        if name == "rev":
            return IterV(list(reversed(el)))
        if name in ("skip", "take", "nth", "step_by") and args and isinstance(args[0], int) and not isinstance(args[0], bool):
            n = args[0]
            if name == "skip":
                return IterV(el[n:])
            if name == "take":
                return IterV(el[:n])
            if name == "step_by":
                if n <= 0:
                    raise PanicReached("step_by", "step_by(0)", 0)
                return IterV(el[::n])
            return some(el[n]) if n < len(el) else none
        if name == "chain" and isinstance(args[0], (IterV, ListV)):
            return IterV(el + list(args[0].elems))
        if name == "enumerate":
            return IterV([TupleV([i, x]) for i, x in enumerate(el)])
        if name in ("next", "first"):
            return some(el[0]) if el else none
        if name in ("last", "next_back"):
            return some(el[-1]) if el else none
        if name == "count" or name == "len":
            return len(el)
        if name == "is_empty":
            return not el
        if name == "find":
            for x in el:
                if self.truth(call(args[0], x)):
                    return some(x)
            return none
        if name == "rfind":
            for x in reversed(el):
                if self.truth(call(args[0], x)):
                    return some(x)
            return none
        if name == "find_map":
            for x in el:
                r = call(args[0], x)
                r = self.tag_of(r) if isinstance(r, SymObj) else r
                if isinstance(r, Tag) and r.name == "Some":
                    return r
                if not (isinstance(r, Tag) and r.name == "None"):
                    raise Unsupported("find_map closure result " + vkey(r))
            return none
        if name == "position":
            for i, x in enumerate(el):
                if self.truth(call(args[0], x)):
                    return some(i)
            return none
        if name == "any":
            return any(self.truth(call(args[0], x)) for x in el)
        if name == "all":
            return all(self.truth(call(args[0], x)) for x in el)
        if name in ("max_by_key", "min_by_key"):
            if not el:
                return none

            def keyof(x):
                k = call(args[0], x)
                k = self.tag_of(k) if isinstance(k, SymObj) and self._is_enumish(k) else k
                if isinstance(k, TupleV):
                    k = tuple(int(self.truth(q)) if not isinstance(q, int) else int(q) for q in k.elems)
                elif isinstance(k, bool) or isinstance(k, int):
                    k = int(k)
                elif isinstance(k, Tag) and k.name in ("Some", "None"):
                    k = (0,) if k.name == "None" else (1, int(k.args[0]) if isinstance(k.args[0], (bool, int)) else 0)
                else:
                    k = int(self.truth(k))
                return k
            keys = [keyof(x) for x in el]
            if name == "max_by_key":  # std: the LAST maximal element
                best = max(keys)
                return some([x for x, k in zip(el, keys) if k == best][-1])
            best = min(keys)          # std: the FIRST minimal element
            return some([x for x, k in zip(el, keys) if k == best][0])
        if name == "collect":
            return ListV(list(el))
        if name == "for_each":
            for x in el:
                call(args[0], x)
            return UNIT
        if name == "flat_map":
            out = []
            for x in el:
                r = call(args[0], x)
                if isinstance(r, (ListV, IterV)):
                    out.extend(r.elems)
                else:
                    raise Unsupported("flat_map closure result " + vkey(r))
            return IterV(out)
        if name == "fold" and len(args) == 2:
            acc = args[0]
            for x in el:
                acc = call(args[1], acc, x)
            return acc
        raise Unsupported(f"iterator method {name} on a concrete iterator")

    def std_ret(self, recv, name):
        if name in ("is_empty", "contains_key", "contains", "starts_with", "ends_with", "any", "all", "is_ident", "eq", "ne"):
            return ("bool",)
        if name in ("len", "count"):
            return ("int",)
        if name in ("next", "find", "get", "get_mut", "first", "last", "position", "pop", "find_map", "max_by_key", "min_by_key", "nth", "next_back", "first_mut", "last_mut"):
            return ("opt", ("named", "?"))
        return ("named", "?")

    def truth(self, v):
        if isinstance(v, bool):
            return v
        if isinstance(v, SymObj):
            if v.ty[0] in ("bool",):
                return self.tag_of(v)
            # unknown-typed symbolic condition: treat as boolean atom
            return self.decide(v.path, [False, True])
        raise Unsupported("truth of " + vkey(v))

    # -- expressions ----------------------------------------------------------
    def eval(self, e, env):
        k = e["k"]
        m = getattr(self, "e_" + k, None)
        if m is None:
            raise Unsupported("expr " + k)
        return m(e, env)

    def e_Path(self, e, env):
        segs = e["segs"]
        if len(segs) == 1:
            n = segs[0]
            if n in env:
                return env[n]
            if n == "None":
                return Tag("None", [], "Option")
            if n in ("Named", "Unnamed", "Some", "Ok", "Err"):
                return FnRef(n, ctor=n)
            if n == "true":
                return True
            if n == "false":
                return False
            if n in self.fn_index:
                return FnRef(n)
            if n[:1].isupper():
                return SymObj(n, ("named", "?"))
            raise Unsupported("unbound " + n)
        # Enum::Variant
        en, vn = segs[-2], segs[-1]
        vs = self.types.enum_variants(en)
        if vs:
            for name, ptys, pnames, kind in vs:
                if name == vn:
                    if kind == "unit":
                        return Tag(vn, [], en)
                    return FnRef(f"{en}::{vn}", ctor=vn, enum=en)
        if en == "TokenStream" and vn == "new":
            return FnRef("TokenStream::new")
        if en == "Span" and vn == "call_site":
            return FnRef("Span::call_site")
        return FnRef(e["path"])

    def e_Lit(self, e, env):
        l = e["lit"]
        if l["lk"] == "int":
            return int(l["v"])
        return l["v"]

    def e_Field(self, e, env):
        return self.field(self.eval(e["base"], env), e["member"])

    def e_Ref(self, e, env):
        return self.eval(e["expr"], env)

    def e_Unary(self, e, env):
        v = self.eval(e["expr"], env)
        if e["op"] == "*":
            return v
        if e["op"] == "!":
            return not self.truth(v)
        raise Unsupported("unary " + e["op"])

    def e_Binary(self, e, env):
        op = e["op"]
        if op == "&&":
            return self.truth(self.eval(e["l"], env)) and self.truth(self.eval(e["r"], env))
        if op == "||":
            return self.truth(self.eval(e["l"], env)) or self.truth(self.eval(e["r"], env))
        l = self.eval(e["l"], env)
        r = self.eval(e["r"], env)
        if op in ("==", "!="):
            res = self.equal(l, r)
            return res if op == "==" else not res
        if op in ("+", "-", "<", ">", "<=", ">=", "+=", "-="):
            if isinstance(l, int) and isinstance(r, int) and not isinstance(l, bool):
                if op in ("+", "+="):
                    res = l + r
                elif op in ("-", "-="):
                    res = l - r
                else:
                    return {"<": l < r, ">": l > r, "<=": l <= r, ">=": l >= r}[op]
            else:
                if op in ("<", ">", "<=", ">="):
                    return self.decide(f"({vkey(l)} {op} {vkey(r)})", [False, True])
                res = SymObj(f"({vkey(l)} {op[0]} {vkey(r)})", ("int",))
            if op in ("+=", "-="):
                self.assign(e["l"], res, env)
                return UNIT
            return res
        raise Unsupported("binary " + op)

    def equal(self, l, r):
        lt = self.tag_of(l) if isinstance(l, SymObj) and self._is_enumish(l) else l
        rt = self.tag_of(r) if isinstance(r, SymObj) and self._is_enumish(r) else r
        if isinstance(lt, Tag) and isinstance(rt, Tag):
            return lt.name == rt.name and len(lt.args) == len(rt.args) == 0 or (lt.name == rt.name and all(self.equal(a, b) for a, b in zip(lt.args, rt.args)))
        if isinstance(lt, bool) and isinstance(rt, bool):
            return lt == rt
        if isinstance(lt, (int, str)) and isinstance(rt, (int, str)):
            return lt == rt
        a, b = sorted([vkey(lt), vkey(rt)])
        if a == b:
            return True
        return self.decide(f"({a} == {b})", [False, True])

    def _is_enumish(self, v):
        ty = v.ty
        if ty == ("named", "?") and v.path in self.inferred:
            ty = self.inferred[v.path]
        return ty[0] in ("opt", "bool") or (ty[0] == "named" and self.types.enum_variants(ty[1]))

    def assign(self, target, v, env):
        if target["k"] == "Path" and len(target["segs"]) == 1:
            env[target["segs"][0]] = v
            self.assign_log.append((target["segs"][0], v))
            self.effects.append(("assign", target["segs"][0], vkey(v)))
            return
        if target["k"] == "Field":
            base = self.eval(target["base"], env)
            if isinstance(base, StructV):
                base.fields[target["member"]] = v
                return
            if isinstance(base, SymObj):
                self.store[base.path + "." + target["member"]] = v
                self.effects.append(("assign", base.path + "." + target["member"], vkey(v)))
                return
            self.effects.append(("assign", render(target), vkey(v)))
            return
        self.effects.append(("assign", render(target), vkey(v)))

    def e_Assign(self, e, env):
        self.assign(e["l"], self.eval(e["r"], env), env)
        return UNIT

    def e_Cast(self, e, env):
        return self.eval(e["expr"], env)

    def e_Tuple(self, e, env):
        if not e["elems"]:
            return UNIT
        return TupleV([self.eval(x, env) for x in e["elems"]])

    def e_Array(self, e, env):
        return ListV([self.eval(x, env) for x in e["elems"]])

    def e_Struct(self, e, env):
        name = e["path"].split("::")[-1]
        fields = {f["member"]: self.eval(f["expr"], env) for f in e["fields"]}
        rest = self.eval(e["rest"], env) if "rest" in e else None
        # enum struct-variant?
        segs = e["path"].split("::")
        if len(segs) >= 2 and self.types.enum_variants(segs[-2]):
            return Tag(name, list(fields.values()), segs[-2], fields=list(fields.keys()))
        return StructV(name, fields, rest)

    def e_Block(self, e, env):
        return self._branch(e, env, env)

    def e_If(self, e, env):
        self.visited.add(("if", e["line"], e["col"]))
        c = e["cond"]
        if c["k"] == "LetExpr":
            v = self.eval(c["expr"], env)
            env2 = dict(env)
            if self.bind(c["pat"], v, env2):
                return self._branch(e["then"], env2, env)
            if "else" in e:
                return self._branch(e["else"], env, env)
            return UNIT
        if self.truth(self.eval(c, env)):
            return self._branch(e["then"], env, env)
        if "else" in e:
            return self._branch(e["else"], env, env)
        return UNIT

    def _branch(self, b, env, outer):
        mark = len(self.assign_log)
        try:
            if b["k"] == "Block":
                inner = dict(env)
                return self.eval_block(b, inner)
            return self.eval(b, env)
        finally:
            # propagate explicit assignments (not shadowing bindings) to variables of the outer env
            for name, val in self.assign_log[mark:]:
                if name in outer:
                    outer[name] = val

    def e_Match(self, e, env):
        self.visited.add(("match", e["line"], e["col"]))
        v = self.eval(e["scrut"], env)
        v = self.resolve_str(v, [a["pat"] for a in e["arms"]])
        for a in e["arms"]:
            env2 = dict(env)
            if self.bind(a["pat"], v, env2):
                if "guard" in a and not self.truth(self.eval(a["guard"], env2)):
                    continue
                self.last_arm = a
                return self._branch(a["body"], env2, env)
        if isinstance(v, SymObj) and e["arms"]:
            # a value of a type the evaluator does not know (an external enum): which arm is taken is one finite decision
            idx = self.decide(v.path + " matches arm", list(range(len(e["arms"]))))
            a = e["arms"][idx]
            env2 = dict(env)
            for q in walk(a["pat"]):
                if q["k"] == "PIdent" and q["name"][:1].islower():
                    env2[q["name"]] = SymObj(f"{v.path}#arm{idx}.{q['name']}", ("named", "?"))
            if "guard" in a:
                self.truth(self.eval(a["guard"], env2))
            self.last_arm = a
            return self._branch(a["body"], env2, env)
        raise Unsupported("no arm matched " + vkey(v))

    def resolve_str(self, v, pats):
        """A symbolic string matched against string literals becomes one finite atom."""
        if isinstance(v, SymObj) and v.ty[0] in ("str", "named") and not self._is_enumish(v):
            lits = sorted({x for p in pats for x in pat_strs(p)})
            if lits:
                if isinstance(self.decisions.get(v.path), str):
                    return self.decisions[v.path]
                return self.decide(v.path, lits + [OTHER_STR])
        return v

    def e_Repeat(self, e, env):
        """[value; N]: N copies when N is a known integer (a literal, or CONST.len() of a constant array), else one symbolic array."""
        v = self.eval(e["expr"], env)
        n = None
        try:
            ln = self.eval(e["len"], env)
            if isinstance(ln, int) and not isinstance(ln, bool):
                n = ln
        except Unsupported:
            n = None
        if n is None:
            m = re.fullmatch(r"(\w+)\.len\(\)", render(e["len"]).replace(" ", ""))
            if m:
                for f in self.files if hasattr(self, "files") else []:
                    pass
        if n is not None and n <= 64:
            return ListV([v for _ in range(n)])
        return SymObj("[" + vkey(v) + "; " + render(e["len"]) + "]", ("named", "?"))

    def e_Closure(self, e, env):
        return Clos(e["params"], e["body"], env, self)

    def e_Return(self, e, env):
        raise ReturnEx(self.eval(e["expr"], env) if "expr" in e else UNIT)

    def e_Continue(self, e, env):
        raise ContinueEx()

    def e_Break(self, e, env):
        raise BreakEx()

    def e_Try(self, e, env):
        v = self.eval(e["expr"], env)
        if isinstance(v, SymObj) and v.ty[0] == "result":
            return SymObj(v.path, v.ty[1])
        if isinstance(v, SymObj) and v.ty[0] == "opt":
            # `?` on an Option: None leaves the function, Some(x) yields x
            if self.decide(v.path, ["None", "Some"]) == "None":
                raise ReturnEx(Tag("None", [], "Option"))
            return SymObj(v.path + "!", v.ty[1] if len(v.ty) > 1 and isinstance(v.ty[1], tuple) else ("named", "?"))
        if isinstance(v, Tag) and v.name == "None":
            raise ReturnEx(v)
        if isinstance(v, Tag) and v.name == "Some" and v.args:
            return v.args[0]
        if isinstance(v, Tag) and v.name == "Err":
            raise ReturnEx(v)
        if isinstance(v, Tag) and v.name == "Ok" and v.args:
            return v.args[0]
        return v

    def e_Index(self, e, env):
        base = self.eval(e["expr"], env)
        idx = self.eval(e["index"], env)
        self.visited.add(("index", e["line"], e["col"]))
        if isinstance(base, ListV) and isinstance(idx, int) and not isinstance(idx, bool):
            if idx >= len(base.elems):
                raise PanicReached("index", render(e), e["line"])
            return base.elems[idx]
        it = self.tag_of(idx) if isinstance(idx, SymObj) and self._is_enumish(idx) else idx
        if isinstance(it, Tag) and it.enum:
            fi = self.index_impls.get(it.enum)
            if fi is not None:
                return self.inline(fi, base, [it])
        if isinstance(base, SymObj):
            ety = base.ty[1] if base.ty[0] == "vec" else ("named", "?")
            return SymObj(f"{base.path}[{vkey(idx)}]", ety)
        raise Unsupported("index")

    def e_Call(self, e, env):
        f = e["func"]
        args = [self.eval(a, env) for a in e["args"]]
        if f["k"] == "Path":
            segs = f["segs"]
            if len(segs) == 1 and segs[0] in env:
                return self.call_closure(env[segs[0]], args)
            name = segs[-1]
            if len(segs) == 1:
                if name in ("Some", "Ok", "Err"):
                    return Tag(name, args, "Option" if name == "Some" else "Result")
                if name in ("Named", "Unnamed"):
                    return Tag(name, args, "Member")
                if name in self.fn_index:
                    return self.call_fn(name, args, e)
                if name[:1].isupper():
                    return StructV(name, {str(i): a for i, a in enumerate(args)})
                raise Unsupported("call " + name)
            en = segs[-2]
            if en == "Self" and getattr(self, "impl_stack", None) and self.impl_stack[-1]:
                en = re.sub(r"<.*", "", self.impl_stack[-1]).strip()
            if en == "Member" and name in ("Named", "Unnamed"):
                return Tag(name, args, "Member")
            vs = self.types.enum_variants(en)
            if vs and any(x[0] == name for x in vs):
                return Tag(name, args, en)
            if en == "TokenStream" and name == "new":
                return Toks([])
            if en == "Vec" and name == "new" and not args:
                return ListV([])
            if en == "TokenStream" and name == "from_iter":
                a = args[0]
                if isinstance(a, ListV):
                    out = []
                    for el in a.elems:
                        out.extend(self.to_toks(el))
                    return Toks(out)
                return Toks([("rep", vkey(a))])
            if en == "Span":
                return SymObj("Span::" + name + "()", ("named", "Span"))
            if (en, name) in self.method_index:
                fi = self.method_index[(en, name)]
                if name in self.opaque or f"{en}::{name}" in self.opaque or (self.shallow and name not in self.transparent and not (self.inline_helpers and self.small_pure(fi))) or \
                        (self.inline_files is not None and fi.file not in self.inline_files and name not in self.transparent
                         and not (self.inline_helpers and self.small_pure(fi))):
                    return self.summary(f"{en}::{name}", None, args, fi)
                try:
                    return self.inline(fi, None, args)
                except Unsupported as u:
                    if self.strict:
                        raise
                    self.summaries.add(f"auto:{en}::{name} ({u})")
                    return self.summary(f"{en}::{name}", None, args, fi)
            if en == "Default" and name == "default":
                return SymObj("Default::default()", ("named", "?"))
            key = f["path"] + "(" + ", ".join(self.argkey(a) for a in args) + ")"
            self.summaries.add("ext:" + f["path"])
            return SymObj(key, ("named", "?"))
        fv = self.eval(f, env)
        return self.call_closure(fv, args)

    def e_MethodCall(self, e, env):
        recv = self.eval(e["recv"], env)
        args = [self.eval(a, env) for a in e["args"]]
        if e["method"] in ("unwrap", "expect"):
            self.visited.add(("unwrap", e["mline"], e["col"]))
            if isinstance(recv, SymObj) and recv.ty[0] not in ("opt", "result") and not (recv.ty[0] == "named" and recv.ty[1] != "?"):
                if self.decide(recv.path, ["None", "Some"]) == "None":
                    raise PanicReached("unwrap", render(e["recv"]), e["mline"])
                return SymObj(recv.path + "!", ("named", "?"))
            if isinstance(recv, SymObj) and recv.ty[0] == "result":
                if self.decide(recv.path, ["None", "Some"]) == "None":
                    raise PanicReached("unwrap", render(e["recv"]), e["mline"])
                return SymObj(recv.path + "!", recv.ty[1])
            if isinstance(recv, Tag) and recv.name in ("Ok",) and recv.args:
                return recv.args[0]
            if isinstance(recv, Tag) and recv.name == "Err":
                raise PanicReached("unwrap", render(e["recv"]), e["mline"])
        return self.method(recv, e["method"], args, e, env)

    def e_Macro(self, e, env):
        n = e["last"]
        if n in QUOTE_MACROS:
            return self.quote(e, env)
        if n in ("unreachable", "todo", "panic", "unimplemented"):
            self.visited.add(("panic", e["line"], e["col"]))
            marker = ""
            if e.get("args"):
                a0 = e["args"][0]
                if a0["k"] == "Lit":
                    marker = str(a0["lit"]["v"])
            raise PanicReached(n, marker, e["line"])
        if n == "format_ident":
            args = e.get("args") or []
            fmt = args[0]["lit"]["v"] if args and args[0]["k"] == "Lit" else "?"
            return FIdent(fmt, [self.eval(a, env) for a in args[1:]])
        if n == "vec":
            if not e["tokens"]:
                return ListV([])
            if "args" in e:
                return ListV([self.eval(a, env) for a in e["args"]])
        if n == "matches" and "pat" in e:
            v = self.eval(e["args"][0], env)
            v = self.resolve_str(v, [e["pat"]])
            env2 = dict(env)
            ok = self.bind(e["pat"], v, env2)
            if ok and "guard" in e:
                ok = self.truth(self.eval(e["guard"], env2))
            return ok
        if n == "Token":
            return SymObj("Token![" + e["src"].replace(" ", "") + "]", ("named", "Token"))
        if n in ("braced", "parenthesized", "bracketed"):
            toks = e["tokens"]
            if len(toks) >= 3 and toks[0]["t"] == "ident" and toks[1]["t"] == "ident" and toks[1]["v"] == "in":
                src_name = toks[2]["v"] if toks[2]["t"] == "ident" else "?"
                src_v = env.get(src_name)
                env[toks[0]["v"]] = SymObj(f"{n}({vkey(src_v) if src_v is not None else src_name})", ("named", "ParseBuffer"))
                self.effects.append((n, src_name))
                return UNIT
        if n == "format":
            args = e.get("args") or []
            vals = [self.eval(a, env) for a in args[1:]]
            return SymObj("format(" + (str(args[0]["lit"]["v"]) if args and args[0]["k"] == "Lit" else "?") + "; " + ", ".join(vkey(v) for v in vals) + ")", ("str",))
        raise Unsupported("macro " + n)

    def havoc_assigned(self, body, env):
        from .src import walk
        for n in walk(body):
            tgt = None
            if n["k"] == "Assign":
                tgt = n["l"]
            elif n["k"] == "Binary" and n["op"] in ("+=", "-="):
                tgt = n["l"]
            if tgt is not None and tgt["k"] == "Path" and len(tgt["segs"]) == 1 and tgt["segs"][0] in env:
                env[tgt["segs"][0]] = SymObj(f"loop({tgt['segs'][0]})", ("named", "?"))
            if n["k"] == "MethodCall" and n["method"] in ("push", "extend", "insert", "push_str", "append"):
                r_ = n["recv"]
                while r_["k"] in ("Ref", "Field"):
                    r_ = r_["expr"] if r_["k"] == "Ref" else r_["base"]
                if r_["k"] == "Path" and len(r_["segs"]) == 1 and isinstance(env.get(r_["segs"][0]), ListV):
                    env[r_["segs"][0]].elems.append(Toks([("rep", "loop:" + r_["segs"][0])]))

    def e_While(self, e, env):
        if self.skip_loops:
            self.effects.append(("loop-skipped", e["line"]))
            self.havoc_assigned(e["body"], env)
            return UNIT
        env2 = dict(env)
        self.effects.append(("while", render(e["cond"])[:60]))
        enter = True
        if e["cond"]["k"] == "LetExpr":
            src = self.eval(e["cond"]["expr"], env2)
            enter = self.bind(e["cond"]["pat"], src, env2)
        else:
            enter = self.truth(self.eval(e["cond"], env2))
        if enter:
            mark = len(self.assign_log)
            try:
                self.eval_block(e["body"], env2)
            except (ContinueEx, BreakEx):
                pass
            for name, _v in self.assign_log[mark:]:
                if name in env:
                    env[name] = SymObj(f"loop({name})", ("named", "?"))
        return UNIT

    def e_For(self, e, env):
        if self.skip_loops:
            self.effects.append(("loop-skipped", e["line"]))
            self.havoc_assigned(e["body"], env)
            return UNIT
        # over-approximation: the body is analysed once with a symbolic element; variables it assigns are havocked
        it = self.eval(e["iter"], env)
        if getattr(self, "concrete_iters", False) and isinstance(it, (ListV, IterV)):
            # small-scope mode: the loop runs over the known elements with the ordinary semantics of break / continue / return
            for x in list(it.elems):
                env2 = dict(env)
                if not self.bind(e["pat"], x, env2):
                    raise Unsupported("for pattern bind")
                mark = len(self.assign_log)
                try:
                    self.eval_block(e["body"], env2)
                except ContinueEx:
                    pass
                except BreakEx:
                    for name, v in self.assign_log[mark:]:
                        if name in env:
                            env[name] = v
                    break
                for name, v in self.assign_log[mark:]:
                    if name in env:
                        env[name] = v
            return UNIT
        env2 = dict(env)
        elem = SymObj("elem(" + vkey(it) + ")", it.ty[1] if isinstance(it, SymObj) and it.ty[0] in ("vec", "iter") and len(it.ty) > 1 and isinstance(it.ty[1], tuple) else ("named", "?"))
        self.bind(e["pat"], elem, env2)
        self.effects.append(("for", vkey(it)))
        mark = len(self.assign_log)
        try:
            self.eval_block(e["body"], env2)
        except (ContinueEx, BreakEx):
            pass
        for name, _v in self.assign_log[mark:]:
            if name in env:
                env[name] = SymObj(f"loop({name})", ("named", "?"))
        return UNIT


# ---------------------------------------------------------------------------- driver
class Leaf:
    __slots__ = ("decisions", "value", "panic", "effects", "unsupported", "arm_line", "summaries", "visited")

    def __init__(self, decisions, value=None, panic=None, effects=None, unsupported=None, arm_line=None, summaries=None):
        self.decisions = decisions
        self.value = value
        self.panic = panic
        self.effects = effects or []
        self.unsupported = unsupported
        self.arm_line = arm_line
        self.summaries = summaries or set()
        self.visited = set()

    def get(self, atom, default=None):
        return self.decisions.get(atom, default)

    def __repr__(self):
        d = ", ".join(f"{k}={v}" for k, v in self.decisions.items())
        if self.panic:
            return f"[{d}] -> PANIC {self.panic}"
        if self.unsupported:
            return f"[{d}] -> UNSUPPORTED {self.unsupported}"
        return f"[{d}] -> {vkey(self.value)}"


def _mk_leaf(ev, *a, **kw):
    lf = Leaf(*a, **kw)
    lf.visited = set(ev.visited)
    return lf


def explore(make_eval, run, preset=None, limit=20000, constraint=None):
    """Enumerate the full decision tree of `run(evaluator)`.

    make_eval() -> fresh Evaluator; run(ev) -> value.  `preset` fixes atoms up front;
    `constraint(decisions)` may veto (return False) infeasible partial assignments.
    Returns list of Leaf.
    """
    leaves = []
    shared = None
    stack = [dict(preset or {})]
    while stack:
        dec = stack.pop()
        if len(leaves) > limit:
            raise Inconclusive(f"decision table exceeds {limit} leaves")
        if shared is None:
            shared = make_eval()
        ev = shared
        ev.decisions = dict(dec)
        ev.last_arm = None
        ev.effects = []
        ev.store = {}
        ev.assign_log = []
        ev.inferred = {}
        ev.visited = set()
        ev.summaries = set()
        ev.depth = 0
        try:
            v = run(ev)
            leaves.append(_mk_leaf(ev, dec, value=v, effects=ev.effects, arm_line=(ev.last_arm or {}).get("line"), summaries=ev.summaries))
        except ReturnEx as r_:
            leaves.append(_mk_leaf(ev, dec, value=r_.value, effects=ev.effects, summaries=ev.summaries))
        except NeedDecision as nd:
            for val in reversed(nd.domain):
                d2 = dict(dec)
                d2[nd.atom] = val
                if constraint is None or constraint(d2):
                    stack.append(d2)
        except PanicReached as p:
            leaves.append(_mk_leaf(ev, dec, panic=(p.kind, p.marker, p.line), effects=ev.effects, summaries=ev.summaries))
        except (ContinueEx, BreakEx) as c:
            leaves.append(_mk_leaf(ev, dec, value=("continue" if isinstance(c, ContinueEx) else "break"), effects=ev.effects, summaries=ev.summaries))
        except Unsupported as u:
            leaves.append(_mk_leaf(ev, dec, unsupported=str(u), effects=ev.effects, summaries=ev.summaries))
    return leaves


# ---------------------------------------------------------------------------- parallel driver
_PAR = {}


def _par_worker(preset):
    mk, run, constraint, limit = _PAR["args"]
    return explore(mk, run, preset=preset, limit=limit, constraint=constraint)


def explore_parallel(make_eval, run, preset=None, limit=200000, constraint=None, jobs=8, fanout=64):
    """Same result set as explore(); the decision tree is split after a sequential prefix and subtrees are explored in forked workers.
    Leaves must be picklable (callers convert values before returning them from `run`)."""
    import multiprocessing as mp
    frontier = [dict(preset or {})]
    done = []
    shared = make_eval()
    # breadth-first expansion until enough independent subtrees exist
    while frontier and len(frontier) < fanout:
        dec = frontier.pop(0)
        ev = shared
        ev.decisions = dict(dec)
        ev.last_arm = None
        ev.effects = []
        ev.store = {}
        ev.assign_log = []
        ev.inferred = {}
        ev.visited = set()
        ev.summaries = set()
        ev.depth = 0
        try:
            run(ev)
            done.append(dec)          # complete without further decisions: re-run in a worker to build the leaf
        except NeedDecision as nd:
            for val in nd.domain:
                d2 = dict(dec)
                d2[nd.atom] = val
                if constraint is None or constraint(d2):
                    frontier.append(d2)
        except Exception:
            done.append(dec)
    work = done + frontier
    _PAR["args"] = (make_eval, run, constraint, limit)
    ctx = mp.get_context("fork")
    out = []
    with ctx.Pool(jobs) as pool:
        for part in pool.imap_unordered(_par_worker, work, chunksize=1):
            out.extend(part)
    return out
