#!/usr/bin/env python3
"""Maintenance helper (never run by a check): record triaged, genuine defects as known findings.
usage: tools/kf.py add <PROP> <key-regex> --what TEXT [--repro TEXT]"""
import importlib, json, os, re, sys
HERE = os.path.dirname(os.path.dirname(os.path.abspath(__file__)))
sys.path.insert(0, HERE)
from o2ov.core import Check, KNOWN_FILE, load_known
from o2ov.src import Repo

def main():
    _, cmd, prop, rx = sys.argv[:4]
    what = sys.argv[sys.argv.index("--what") + 1]
    repro = sys.argv[sys.argv.index("--repro") + 1] if "--repro" in sys.argv else ""
    mod = importlib.import_module(f"o2ov.props.{prop.lower()}")
    chk = Check(prop, Repo(), "quick")
    mod.run(chk)
    known = load_known()
    have = {(k["property"], k["key"]) for k in known}
    added = 0
    for i in chk.instances:
        if not i.ok and re.search(rx, i.key) and (prop, i.key) not in have:
            known.append({"property": prop, "key": i.key, "status": "known", "what": what, "reproducer": repro})
            have.add((prop, i.key))
            added += 1
            print("added", i.key)
    with open(KNOWN_FILE, "w") as fh:
        json.dump(known, fh, indent=1)
    print(added, "added")
main()
