#!/bin/bash
# maintenance helper: like tools/benign.sh but on scratch copies of /repo's sources (O2O_REPO), several refactorings in parallel;
# /repo itself is not touched. usage: tools/benign_par.sh [id-prefix] [jobs]
cd /verif
PFX=${1:-}; JOBS=${2:-6}
one() {
  d=$1; id=$(basename $d)
  T=$(mktemp -d /tmp/o2o-benign-XXXXXX)
  (cd /repo && tar cf - --exclude=target --exclude=.git . ) | (cd $T && tar xf -)
  if ! (cd $T && patch -s -p1 < /verif/$d/patch.diff >/dev/null 2>&1); then echo "$id PATCH DOES NOT APPLY"; rm -rf $T; return; fi
  viol=""; inc=""; det=""
  for n in $(seq -w 1 20); do
    r=$(O2O_REPO=$T O2O_SCRATCH_EVIDENCE=1 ./check C$n 2>&1); c=$?
    if [ $c -eq 1 ]; then viol="$viol C$n"; det="$det$(echo "$r" | grep -A1 "^VIOLATION" | grep "rule=" | head -2 | cut -c1-240 | sed "s/^/    [$id C$n] /")
"; fi
    if [ $c -eq 2 ]; then inc="$inc C$n"; fi
  done
  rm -rf $T
  printf "%s" "$det"
  echo "$id false-alarms:[$viol ] inconclusive:[$inc ]"
}
export -f one
ls -d benign/${PFX}*/ | xargs -P $JOBS -I{} bash -c 'one {}'
