"""Panic-capable site inventory and reachability by partial evaluation over root regions (C16)."""
import collections
import re
import os

from .pe import Clos, Evaluator, SymObj, TupleV, explore
from .src import calls, method_calls, render, walk, walk_with_parents
from .tables import AST, ATTR, EXPAND, IMPL_FILES, VALIDATE

PANIC_MACROS = ("panic", "unreachable", "todo", "unimplemented", "assert", "assert_eq", "assert_ne", "debug_assert", "debug_assert_eq")


def sites_of(fi):
    """Yield dict(kind, line, col, detail, node) for every panic-capable site in fn fi."""
    for n, parents in walk_with_parents(fi.body):
        k = n["k"]
        if k == "Macro" and n["last"] in PANIC_MACROS:
            marker = ""
            if n.get("args") and n["args"][0]["k"] == "Lit":
                marker = str(n["args"][0]["lit"]["v"])
            yield {"kind": "panic", "line": n["line"], "col": n["col"], "detail": f"{n['last']}!({marker!r})" if marker else f"{n['last']}!()", "node": n, "parents": parents}
        elif k == "MethodCall" and n["method"] in ("unwrap", "expect"):
            yield {"kind": "unwrap", "line": n["mline"], "col": n["col"], "detail": render(n["recv"]) + "." + n["method"] + "()", "node": n, "parents": parents}
        elif k == "Path" and n["segs"][-1] in ("unwrap", "expect", "unwrap_err", "expect_err") and len(n["segs"]) > 1:
            # UFCS call `Option::unwrap(x)` or the function passed as a value `.map(Option::unwrap)`
            yield {"kind": "unwrap", "line": n["line"], "col": n.get("col", 0), "detail": render(n) + "(ufcs)", "node": n, "parents": parents}
        elif k == "Index":
            yield {"kind": "index", "line": n["line"], "col": n["col"], "detail": render(n), "node": n, "parents": parents}
        elif k == "Binary" and n["op"] in ("-", "/", "%", "-=", "/=", "%="):
            yield {"kind": "arith", "line": n["line"], "col": n["col"], "detail": render(n), "node": n, "parents": parents}
        elif k == "Macro" and n["last"] in ("parse_quote", "format_ident"):
            yield {"kind": "macro", "line": n["line"], "col": n["col"], "detail": n["last"] + "!(" + n["src"][:40] + ")", "node": n, "parents": parents}


def constraint(dec):
    """Library relations the evaluator may assume: contains_key(k) => get(k) is Some."""
    for a, v in dec.items():
        if ".contains_key(" in a and v is True:
            g = a.replace(".contains_key(", ".get(")
            if dec.get(g) == "None":
                return False
    return True


def regions_of(fi, with_body=True):
    if with_body:
        yield ("fn", fi.body, None)
    for n in walk(fi.body):
        if n["k"] == "Closure":
            yield ("closure", n, n)
        elif n["k"] in ("For", "While", "Loop"):
            yield ("loop", n["body"], n)


def free_env(ev, fi):
    from .pe import parse_type
    env = ev.sym_params(fi)
    for n in walk(fi.body):
        if n["k"] == "Let":
            p = n["pat"]
            ty = ("named", "?")
            if p["k"] == "PType":
                ty = parse_type(p["ty"])
                p = p["pat"]
            for q in walk(p):
                if q["k"] == "PIdent" and q["name"] not in env and not q["name"][:1].isupper():
                    env[q["name"]] = SymObj(q["name"], ty if q is p else ("named", "?"))
        if n["k"] == "Closure":
            for p in n["params"]:
                for q in walk(p):
                    if q["k"] == "PIdent" and q["name"] not in env and not q["name"][:1].isupper():
                        env[q["name"]] = SymObj(q["name"], ("named", "?"))
        if n["k"] in ("For", "LetExpr", "Arm"):
            for q in walk(n["pat"]):
                if q["k"] == "PIdent" and q["name"] not in env and not q["name"][:1].isupper():
                    env[q["name"]] = SymObj(q["name"], ("named", "?"))
    return env


def enclosing_guards(fi, holder):
    """Conditions of the if/if-let/match arms of fi that enclose `holder` (outermost first)."""
    for n, parents in walk_with_parents(fi.body):
        if n is holder:
            out = []
            chain = list(parents) + [n]
            for i, p in enumerate(parents):
                nxt = chain[i + 1]
                if p["k"] == "If":
                    if nxt is p["then"]:
                        out.append(("if", p["cond"], True))
                    elif "else" in p and nxt is p["else"]:
                        out.append(("if", p["cond"], False))
                elif p["k"] == "Match":
                    for a in p["arms"]:
                        if nxt is a:
                            out.append(("arm", p["scrut"], a))
                elif p["k"] == "Block":
                    # early exits that precede the region in the same block: `if c { return / continue / break }` => !c holds afterwards
                    for st in p["stmts"]:
                        if st is nxt or st.get("expr") is nxt or st.get("init") is nxt:
                            break
                        e = st.get("expr") if st["k"] in ("Expr", "ExprStmt", "Semi") else st
                        if e is not None and e.get("k") == "If" and "else" not in e and e["then"].get("stmts"):
                            last = e["then"]["stmts"][-1]
                            le = last.get("expr", last)
                            if le.get("k") in ("Return", "Continue", "Break"):
                                out.append(("if", e["cond"], False))
            return out
    return []


def guard_conjuncts(fi, holder):
    """The path condition of `holder` inside fn fi as a list of whitespace-free conjunct strings: enclosing if / else / if-let
    conditions and early exits before it (negated), with `&&` split, `!` pushed over `||`, and single-assignment boolean / value
    locals replaced by their defining expression (so `let is_from = ctx.kind.is_from(); if !is_from {..}` reads `!ctx.kind.is_from()`)."""
    from .src import render as _r, render_pat as _rp
    defs = {}
    counts = {}
    for n in walk(fi.body):
        if n["k"] == "Let" and n.get("init") is not None and n["pat"]["k"] in ("PIdent", "PType"):
            p = n["pat"] if n["pat"]["k"] == "PIdent" else n["pat"]["pat"]
            if p["k"] == "PIdent" and not p.get("mut"):
                counts[p["name"]] = counts.get(p["name"], 0) + 1
                if n["init"]["k"] not in ("Closure", "Match", "If", "Block", "Macro"):
                    defs[p["name"]] = _r(n["init"]).replace(" ", "")
    defs = {k: v for k, v in defs.items() if counts.get(k) == 1 and len(v) < 120}

    def subst(t):
        for _ in range(3):
            t2 = re.sub(r"(?<![\w.])([a-z_]\w*)(?![\w(!])", lambda m: ("(" + defs[m.group(1)] + ")" if re.search(r"\|\||&&", defs[m.group(1)]) else defs[m.group(1)]) if m.group(1) in defs else m.group(1), t)
            if t2 == t:
                break
            t = t2
        return t

    def conj(e, neg=False):
        if not neg and e["k"] == "Binary" and e["op"] == "&&":
            return conj(e["l"]) + conj(e["r"])
        if neg and e["k"] == "Binary" and e["op"] == "||":
            return conj(e["l"], True) + conj(e["r"], True)
        if e["k"] == "Unary" and e["op"] == "!":
            return conj(e["expr"], not neg)
        if e["k"] == "Path" and len(e["segs"]) == 1 and e["segs"][0] in defs and not neg:
            pass
        if e["k"] == "LetExpr":
            t = "let" + _rp(e["pat"]).replace(" ", "") + "=" + subst(_r(e["expr"]).replace(" ", ""))
            return ["!(" + t + ")" if neg else t]
        t = subst(_r(e).replace(" ", ""))
        # a substituted conjunction: split again
        if not neg and "&&" in t and e["k"] == "Path":
            return [x.strip("()") for x in t.strip("()").split("&&")]
        if neg:
            t = "!" + (t if re.fullmatch(r"[\w.:&*]+(\([^()]*\))?", t) else "(" + t + ")")
        return [t]
    out = []
    for g in enclosing_guards(fi, holder):
        if g[0] == "if":
            out += conj(g[1], not g[2])
        else:
            out.append("let" + _rp(g[2]["pat"]).replace(" ", "") + "=" + subst(_r(g[1]).replace(" ", "")))
    return out


def assume_guards(ev, fi, holder, env):
    """Evaluate enclosing guards; returns False if the region is unreachable under the current decisions."""
    for g in enclosing_guards(fi, holder):
        if g[0] == "if":
            cond, want = g[1], g[2]
            if cond["k"] == "LetExpr":
                v = ev.eval(cond["expr"], env)
                ok = ev.bind(cond["pat"], v, env)
            else:
                ok = ev.truth(ev.eval(cond, env))
            if ok != want:
                return False
        else:
            scrut, arm = g[1], g[2]
            v = ev.eval(scrut, env)
            # first-match semantics: earlier arms must not match
            parent_match = None
            if not ev.bind(arm["pat"], v, env):
                return False
            if "guard" in arm and not ev.truth(ev.eval(arm["guard"], env)):
                return False
    return True


def prefix_lets(ev, fi, holder, env):
    """Evaluate the `let` statements that precede `holder` in its enclosing blocks, so locals keep their provenance."""
    from .pe import NeedDecision, PanicReached, Unsupported
    for n, parents in walk_with_parents(fi.body):
        if n is holder:
            chain = list(parents) + [n]
            for i, p in enumerate(parents):
                if p["k"] == "Block":
                    nxt = chain[i + 1]
                    for st in p["stmts"]:
                        if st is nxt or (st.get("expr") is nxt) or (st.get("init") is nxt):
                            break
                        if st["k"] == "Let" and "init" in st and st["init"]["k"] not in ("Closure",):
                            try:
                                v = ev.eval(st["init"], env)
                                ev.bind(st["pat"], v, env)
                            except NeedDecision:
                                raise
                            except (Unsupported, PanicReached, Exception):
                                pass
            return


def run_region(ev, fi, rk, node, holder):
    if rk == "fn":
        return ev.run_fn(fi, ev.sym_params(fi))
    env = free_env(ev, fi)
    prefix_lets(ev, fi, holder, env)
    try:
        if not assume_guards(ev, fi, holder, env):
            return None
    except Exception as e:  # guards that cannot be evaluated are simply not assumed (over-approximation)
        from .pe import NeedDecision
        if isinstance(e, NeedDecision):
            raise
    if rk == "closure":
        c = Clos(holder["params"], holder["body"], env, ev)
        args = []
        for i, p in enumerate(holder["params"]):
            pp = p
            while pp["k"] in ("PType", "PRef"):
                pp = pp["pat"]
            if pp["k"] == "PTuple":
                args.append(TupleV([SymObj((q.get("name") if q["k"] == "PIdent" else None) or f"t{j}", ("named", "?")) for j, q in enumerate(pp["elems"])]))
            else:
                nm = pp.get("name") if pp["k"] == "PIdent" else None
                args.append(SymObj(nm or f"arg{i}", ("named", "?")))
        return ev.call_closure(c, args)
    if holder["k"] == "For":
        ev.bind(holder["pat"], SymObj("elem(" + render(holder["iter"])[:40] + ")", ("named", "?")), env)
    elif holder["k"] == "While":
        if holder["cond"]["k"] == "LetExpr":
            src = ev.eval(holder["cond"]["expr"], env)
            if not ev.bind(holder["cond"]["pat"], src, env):
                return None
        elif not ev.truth(ev.eval(holder["cond"], env)):
            return None
    from .pe import BreakEx, ContinueEx
    try:
        return ev.eval_block(node, env)
    except (ContinueEx, BreakEx):
        return None


HEAVY = {("struct_init_block_inner", "loop")}


def _region_task(args, parallel=False):
    """Worker: evaluate one region; returns a picklable summary."""
    repo, f, qual_key, ridx, shallow, opaque, transparent = args
    fi = [x for x in repo.fns(f) if (x.qual, x.line) == qual_key][0]
    is_root_body = True
    regs = list(regions_of(fi, with_body=True))
    rk, node, holder = regs[ridx]
    evs = []

    def mk():
        e = Evaluator(repo, IMPL_FILES, shallow=shallow, opaque=opaque, transparent=transparent)
        e.skip_loops = True
        e.strict = not shallow
        if not shallow:
            e.inline_files = {EXPAND}
        evs.append(e)
        return e

    def cons(d):
        if f == EXPAND and d.get("ctx.impl_type") == "Enum" and fi.name in ("struct_init_block_inner",):
            return False
        return constraint(d)
    out = {"f": f, "qual": fi.qual, "rk": rk, "line": node["line"], "visited": set(), "panics": [], "incomplete": None, "leaves": 0, "invoked": set()}
    try:
        if parallel:
            from .pe import explore_parallel

            def run_p(ev):
                v = run_region(ev, fi, rk, node, holder)
                return None  # values are not needed here (and closures are not picklable)
            leaves = explore_parallel(mk, run_p, constraint=cons, limit=200000, jobs=min(14, os.cpu_count() or 4), fanout=96)
        else:
            leaves = explore(mk, lambda ev: run_region(ev, fi, rk, node, holder), constraint=cons, limit=120000)
    except Exception as e:
        out["incomplete"] = repr(e)[:120]
        return out
    out["leaves"] = len(leaves)
    for e_ in evs:
        out["invoked"] |= {(f, ln) for ln in e_.invoked}
    if parallel:
        # closures invoked inside forked workers are not visible here: mark every closure of this fn that is passed to a call inside the region
        for n in walk(node):
            if n["k"] == "Closure":
                out["invoked"].add((f, n["body"].get("line")))
    uns = [lf.unsupported for lf in leaves if lf.unsupported]
    if uns:
        out["incomplete"] = uns[0][:120]
    for lf in leaves:
        if lf.unsupported:
            continue
        for (k, line, col) in lf.visited:
            out["visited"].add((f, k, line))
        if lf.panic:
            out["panics"].append((f, lf.panic[2], fi.qual, rk, dict(lf.decisions), lf.panic))
    return out


def analyse(repo, opaque, transparent=(), jobs=None):
    """Reachability of every panic-capable site over root regions (evaluated in parallel)."""
    import multiprocessing as mp
    names = {fi.name for fi in repo.fns(EXPAND)}
    callers = collections.defaultdict(set)
    for fi in repo.fns(EXPAND):
        for c in calls(fi.body):
            n = c["func"]["segs"][-1]
            if n in names:
                callers[n].add(fi.name)
        for m in method_calls(fi.body):
            if m["method"] in names:
                callers[m["method"]].add(fi.name)
    tasks1, tasks2, heavy = [], [], []
    for f in (EXPAND, AST, ATTR, VALIDATE):
        shallow = f != EXPAND
        for fi in repo.fns(f):
            is_root = shallow or fi.name in opaque or not callers.get(fi.name)
            for ridx, (rk, node, holder) in enumerate(regions_of(fi, with_body=True)):
                if rk == "fn" and not is_root:
                    continue
                t = (repo, f, (fi.qual, fi.line), ridx, shallow, opaque, set(transparent))
                if (fi.name, rk) in HEAVY:
                    heavy.append(t)
                elif rk == "closure":
                    tasks2.append((t, (f, holder["body"].get("line"))))
                else:
                    tasks1.append(t)
    res = {"visited": set(), "panics": collections.defaultdict(list), "incomplete": [], "regions": 0, "leaves": 0, "callers": callers}
    jobs = jobs or min(12, os.cpu_count() or 4)

    def absorb(o):
        res["regions"] += 1
        res["leaves"] += o["leaves"]
        res["visited"] |= o["visited"]
        for (f, line, qual, rk, dec, pan) in o["panics"]:
            res["panics"][(f, line)].append((f, qual, rk, dec, pan))
        if o["incomplete"]:
            res["incomplete"].append((o["f"], o["qual"], o["rk"], o["line"], o["incomplete"]))
        return o["invoked"]
    invoked = set()
    for t in heavy:
        invoked |= absorb(_region_task(t, parallel=True))
    ctx = mp.get_context("fork")
    with ctx.Pool(jobs) as pool:
        for o in pool.imap_unordered(_region_task, tasks1, chunksize=4):
            invoked |= absorb(o)
        # closures already evaluated through the call that received them are skipped
        rest = [t for t, key in tasks2 if key not in invoked]
        for o in pool.imap_unordered(_region_task, rest, chunksize=4):
            absorb(o)
    return res


def fallback_standalone(repo, fi, opaque):
    """Standalone analysis of a helper whose sites no root region visited."""
    res = {"visited": set(), "panics": collections.defaultdict(list), "incomplete": []}

    def mk():
        e = Evaluator(repo, IMPL_FILES, shallow=True, opaque=opaque)
        e.skip_loops = True
        return e
    try:
        leaves = explore(mk, lambda ev: ev.run_fn(fi, ev.sym_params(fi)), constraint=constraint, limit=20000)
    except Exception as e:
        res["incomplete"].append(repr(e)[:100])
        return res
    for lf in leaves:
        if lf.unsupported:
            res["incomplete"].append(lf.unsupported[:100])
            continue
        for (k, line, col) in lf.visited:
            res["visited"].add((k, line))
        if lf.panic:
            res["panics"][lf.panic[2]].append((fi.file, fi.qual, "fn", dict(lf.decisions), lf.panic))
    return res
