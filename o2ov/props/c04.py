"""C04 — each trait instruction yields exactly the documented set of trait impls."""
import re

from ..pe import Evaluator, ListV, StructV, SymObj, Tag, Toks, explore, vkey
from ..skeleton import assoc_types, fn_of_impl, impl_table
from ..src import Inconclusive, find, method_calls, render, walk
from ..tables import (ATTR, BASIC_KIND, EXPAND, IMPL_FILES, TRAIT_NAMES, applicable_kinds, direction, instr_table, is_ref_kind,
                      kind_slots, kinds, morph_trait_name, readme_shortcut_matrix, trait_attr_of)

LEVEL = "other"
EXPLANATION = (
    "The name -> impl-set function is a composition of finite tables; each is read out of the current source by partial "
    "evaluation over its finite domain and compared with (A) the morphology of the 24 documented names, (B) README's "
    "shortcut matrix and 12-kind block. R1: parse_data_type_instruction evaluated for every instruction name (appl_* helpers and "
    "the Index<&Kind> slot map inlined) -> (fallible, kinds). R3: the iter_for_kind filter as a truth table. R4: data_type_impl's "
    "chain: one entry per (kind, fallible), context fields consistent. R5/R6: quote_trait's 12 cells -> complete impl item (skeleton "
    "inlined, holes replaced by typed placeholders, parsed by syn): trait path, receiver side, `type Error`, Result return, method "
    "name/signature. R7: TypePath.path is never interpolated without TypePath.generics. "
    " R8: TypePath::from(syn::Path) is partially evaluated over the shape of the last segment (whole path kept, <..> of the LAST segment cleared once and returned as generics). R9 imports C15.R1: validation partitions instructions per (kind, fallible), so an instruction is never rejected because of an instruction of another conversion.")
EXPLANATION += ' R11 the counterpart type and the error type of a trait instruction are read with the full path grammar (parse::<syn::Path>), never an identifier-only / mod-style parser (else `X<..>` instructions yield no impls).'
NOT_DECIDED = ["rustc coherence / trait resolution on the emitted impls (trusted)", "what the user-written counterpart/error type tokens denote"]

TRAITS = {
    ("From", False): ("::core::convert::From", "from"),
    ("From", True): ("::core::convert::TryFrom", "try_from"),
    ("Into", False): ("::core::convert::Into", "into"),
    ("Into", True): ("::core::convert::TryInto", "try_into"),
    ("Existing", False): ("o2o::traits::IntoExisting", "into_existing"),
    ("Existing", True): ("o2o::traits::TryIntoExisting", "try_into_existing"),
}


def norm(s):
    return (s or "").replace(" ", "")


def r1_names(chk):
    repo = chk.repo
    chk.rule("R1", "type-level name table: every documented trait-instruction name maps to exactly its (fallible, kinds); no other name yields a trait instruction", floor=24)
    slots, idx_fi = kind_slots(repo)
    exp_slots = len(set(slots.values())) == len(kinds(repo))
    chk.rule("R2", "Index<&Kind> slot map is injective (each kind has its own applicability flag)", floor=1)
    chk.expect("R2", "Index<&Kind>::index", exp_slots, ATTR, idx_fi.line, "two kinds share an applicability slot", found=slots)
    rows, fi = instr_table(repo, "parse_data_type_instruction")
    chk.unit("instruction_table_rows", len(rows))
    by_name = {}
    for r in rows:
        by_name.setdefault(r["name"], []).append(r)
    matrix, nrows, mline = readme_shortcut_matrix(repo)
    for name in TRAIT_NAMES:
        rs = by_name.get(name)
        key = f"parse_data_type_instruction[{name}]"
        if not rs:
            chk.bad("R1", key, ATTR, fi.line, "documented trait instruction name is not recognised", expected="Map", found="no arm")
            continue
        exp_f, exp_k = morph_trait_name(name)
        for r in rs:
            lf = r["leaf"]
            if lf.panic or lf.unsupported:
                chk.bad("R1", key, ATTR, fi.line, "cannot evaluate arm", found=str(lf.panic or lf.unsupported))
                continue
            var, st = trait_attr_of(lf.value)
            if var != "Map" or st is None:
                chk.bad("R1", key, ATTR, fi.line, f"name does not yield a trait instruction under flags {r['flags']}", expected="Map(TraitAttr)", found=vkey(lf.value)[:120])
                continue
            f = st.fields.get("fallible")
            ks = applicable_kinds(st, slots)
            ok = (f == exp_f) and ks == exp_k
            chk.expect("R1", key, ok, ATTR, fi.line, "name maps to the wrong (fallible, kinds)", expected=[exp_f, sorted(exp_k)], found=[f, sorted(ks)],
                       detail={"flags": r["flags"]})
            # README matrix (oracle B): shortcut columns, fallible ones via "exactly the same shortcuts apply"
            base = name.replace("try_", "").replace("_try", "")
            if base in matrix:
                exp_b = {BASIC_KIND[b] for b in matrix[base]}
                chk.expect("R1", f"README-matrix[{name}]", ks == exp_b, "README.md", mline, "shortcut expands to other kinds than README's matrix",
                           expected=sorted(exp_b), found=sorted(ks))
    for name, rs in by_name.items():
        if name in TRAIT_NAMES:
            continue
        for r in rs:
            lf = r["leaf"]
            if lf.panic or lf.unsupported:
                continue
            var, st = trait_attr_of(lf.value)
            shown = "<any other name>" if name and name.startswith("\x00") else name
            chk.expect("R1", f"parse_data_type_instruction[{shown}]!Map", var != "Map", ATTR, fi.line,
                       "an undocumented name yields a trait instruction (extra impls)", expected="not Map", found=vkey(lf.value)[:100], detail={"flags": r["flags"]})
    chk.expect("R1", "README-matrix shape", nrows == 6 and set(matrix) == {"map", "from", "into", "map_owned", "map_ref", "into_existing"}, "README.md", mline,
               "README shortcut matrix not 6x6", found=[nrows, sorted(matrix)])


def r3_filter(chk):
    repo = chk.repo
    chk.rule("R3", "DataTypeAttrs::iter_for_kind keeps x iff x.fallible == fallible && x.applicable_to[kind] (truth table)", floor=6)
    fi = repo.fn(ATTR, "iter_for_kind", impl="DataTypeAttrs")
    slots, _ = kind_slots(repo)
    fl = list(method_calls(fi.body, "filter"))
    if len(fl) != 1 or not fl[0]["args"] or fl[0]["args"][0]["k"] != "Closure":
        raise Inconclusive("iter_for_kind: expected exactly one .filter(closure)")
    recv = render(fl[0]["recv"])
    rs_ = recv.replace(" ", "")
    chk.shape("R3", "iter_for_kind/source", rs_ == "self.attrs.iter()", "self.attrs" not in rs_ or bool(re.search(r"\.(take|skip|rev|step_by|filter)\(", rs_)), ATTR, fi.line,
              "filter is not applied to all of self.attrs in order", expected="self.attrs.iter()", found=recv)
    # nothing else in the chain may drop/reorder
    outer = [m["method"] for m in method_calls(fi.body)]
    bad = [m for m in outer if m in ("take", "skip", "rev", "step_by", "skip_while", "take_while", "nth", "last", "dedup", "sorted")]
    chk.expect("R3", "iter_for_kind/chain", not bad, ATTR, fi.line, "iterator adaptor that drops or reorders instructions", found=bad)
    clos = fl[0]["args"][0]

    def mk():
        return Evaluator(repo, IMPL_FILES)

    def run(ev):
        env = {"fallible": SymObj("fallible", ("bool",)), "kind": SymObj("kind", ("named", "Kind")), "self": SymObj("self", ("named", "DataTypeAttrs"))}
        from ..pe import Clos
        c = Clos(clos["params"], clos["body"], env, ev)
        x = StructV("TraitAttr", {"fallible": SymObj("x.fallible", ("bool",)), "applicable_to": ListV([SymObj(f"x.applicable_to[{i}]", ("bool",)) for i in range(6)]),
                                  "core": SymObj("x.core", ("named", "TraitAttrCore"))})
        return ev.truth(ev.call_closure(c, [x]))

    leaves = explore(mk, run)
    for k in kinds(repo):
        for f in (False, True):
            for xf in (False, True):
                for xa in (False, True):
                    val = {"kind": k, "fallible": f, "x.fallible": xf, f"x.applicable_to[{slots[k]}]": xa}
                    got = set()
                    for lf in leaves:
                        if all(val.get(a, v) == v for a, v in lf.decisions.items() if a in val):
                            # other applicable_to slots must not matter: collect all outcomes
                            got.add(lf.value if not (lf.panic or lf.unsupported) else "?")
                    exp = (xf == f) and xa
                    chk.expect("R3", f"iter_for_kind[{k},fallible={f},x.fallible={xf},x.appl={xa}]", got == {exp}, ATTR, fi.line,
                               "filter keeps/drops the wrong instruction", expected=exp, found=sorted(map(str, got)))


def r4_chain(chk):
    repo = chk.repo
    chk.rule("R4", "data_type_impl: exactly one entry per (kind, fallible); context kind/fallible equal the filter arguments; dst/src by direction; nothing reorders or drops", floor=12)
    fi = repo.fn(EXPAND, "data_type_impl")
    entries = []
    for m in method_calls(fi.body, "map"):
        r = m["recv"]
        if r["k"] == "MethodCall" and r["method"] in ("iter_for_kind_core", "iter_for_kind") and m["args"] and m["args"][0]["k"] == "Closure":
            entries.append((m, r, m["args"][0]))
    ev = Evaluator(repo, IMPL_FILES)
    seen = {}
    ty_expr = None
    for m, r, clos in entries:
        a0 = ev.eval(r["args"][0], {})
        a1 = ev.eval(r["args"][1], {})
        if not isinstance(a0, Tag) or not isinstance(a1, bool):
            raise Inconclusive("data_type_impl: iter_for_kind_core arguments are not constants: " + render(r))
        body = clos["body"]
        lits = [n for n in walk(body) if n["k"] == "Struct" and n["path"].endswith("ImplContext")]
        if len(lits) != 1:
            raise Inconclusive("data_type_impl: closure does not build one ImplContext")
        st = {f["member"]: f["expr"] for f in lits[0]["fields"]}
        key = f"data_type_impl[{a0.name},{a1}]"
        seen[(a0.name, a1)] = seen.get((a0.name, a1), 0) + 1
        k2 = ev.eval(st["kind"], {}) if "kind" in st else None
        f2 = ev.eval(st["fallible"], {}) if "fallible" in st else None
        pi = ev.eval(st["has_post_init"], {}) if "has_post_init" in st else None
        pname = clos["params"][0].get("name", "?")
        dst = render(st.get("dst_ty")).replace(pname, "ATTR")
        src = render(st.get("src_ty")).replace(pname, "ATTR")
        sa = render(st.get("struct_attr")).replace(pname, "ATTR")
        own = "&ty"
        cp = "&ATTR.ty.path"
        exp = (own, cp) if direction(a0.name) == "From" else (cp, own)
        ok = isinstance(k2, Tag) and k2.name == a0.name and f2 == a1 and pi is False and (dst, src) == exp and sa == "ATTR"
        chk.expect("R4", key, ok, EXPAND, m["line"], "ImplContext disagrees with the instructions it was filtered for",
                   expected={"kind": a0.name, "fallible": a1, "has_post_init": False, "dst,src": exp, "struct_attr": "ATTR"},
                   found={"kind": vkey(k2), "fallible": f2, "has_post_init": pi, "dst,src": (dst, src), "struct_attr": sa})
    for k in kinds(repo):
        for f in (False, True):
            n = seen.get((k, f), 0)
            chk.expect("R4", f"data_type_impl/entries[{k},{f}]", n == 1, EXPAND, fi.line, "missing or duplicated entry: impl would be missing or emitted twice", expected=1, found=n)
    # `ty` must be the deriving type's ident; nothing but chain/map/empty on the path to the output
    lets = {s["pat"].get("name"): s.get("init") for s in fi.body["stmts"] if s["k"] == "Let" and s["pat"]["k"] == "PIdent"}
    ty_src = render(lets.get("ty")) if lets.get("ty") else "?"
    chk.shape("R4", "data_type_impl/ty", ty_src.replace(" ", "") == "input.get_ident().to_token_stream()", "ident" not in ty_src, EXPAND, fi.line, "own type tokens are not the deriving type's ident", found=ty_src)
    meths = sorted({m["method"] for m in method_calls(fi.body)} - {"iter_for_kind_core", "iter_for_kind", "get_ident", "get_attrs", "to_token_stream"})
    chk.shape("R4", "data_type_impl/adaptors", set(meths) <= {"chain", "map"}, bool(set(meths) & set(("take", "skip", "rev", "step_by", "skip_while", "take_while", "nth", "last", "dedup", "filter", "sort", "sort_by", "sort_by_key", "sort_unstable", "sort_unstable_by", "reverse", "retain"))), EXPAND, fi.line,
              "an adaptor that drops or reorders sits between the instructions and the output", found=meths)
    last = fi.body["stmts"][-1]
    tail = render(last.get("expr")) if last["k"] == "ExprStmt" else ""
    chk.shape("R4", "data_type_impl/output", "#(#impls)*" in tail.replace(" ", ""), "impls" not in tail, EXPAND, last["line"], "output is not the plain concatenation of the impls", found=tail[:80])
    # the chain must end in .map(|ctx| quote_trait(..ctx))
    qt = [m for m in method_calls(fi.body, "map") if m["args"] and m["args"][0]["k"] == "Closure" and "quote_trait(" in render(m["args"][0]["body"])]
    chk.shape("R4", "data_type_impl/quote_trait", len(qt) == 1, len(qt) == 0, EXPAND, fi.line, "impl contexts are not all rendered through quote_trait exactly once", found=len(qt))


def r5_r6_impls(chk):
    repo = chk.repo
    chk.rule("R5", "quote_trait: each (kind, fallible) selects a skeleton implementing the trait for that direction/fallibility, with the fallible body wrapper", floor=12)
    chk.rule("R6", "skeleton header: trait path, counterpart as trait argument, self type, `&` only on the source side, type Error = E and Result<_, E> iff fallible, method signature", floor=12)
    cells, info = impl_table(repo)
    chk.unit("impl_table_cells", len(cells))
    fi = info["quote_trait"]
    covered = set()
    for c in cells:
        k, f, pi = c["kind"], c["fallible"], c["post_init"]
        key = f"quote_trait[{k},fallible={f},post_init={pi}]"
        lf = c["leaf"]
        if lf.panic:
            # err_ty unwrap: discharged by validation (C16 G2); not an impl cell
            continue
        if c.get("toks") is None:
            chk.inconc("R5", f"{key}: {lf.unsupported or vkey(lf.value)[:80]}")
            continue
        if c["unknown"]:
            chk.inconc("R6", f"{key}: hole(s) of unknown provenance {c['unknown'][:3]}")
            continue
        covered.add((k, f))
        p = c["parsed"]
        if not p.get("ok") or len(p["items"]) != 1 or p["items"][0]["k"] != "Impl":
            chk.bad("R6", key, EXPAND, fi.line, "skeleton does not parse as one impl item", found=p.get("error") or [i["k"] for i in p.get("items", [])])
            continue
        im = p["items"][0]
        d = direction(k)
        exp_trait, exp_m = TRAITS[(d, f)]
        tr = norm(im.get("trait"))
        cp, own = ("__Src<__THOSE>", "__Dst<__THESE>") if d == "From" else ("__Dst<__THOSE>", "__Src<__THESE>")
        amp = "&"  # the r hole; its presence condition is checked in C11.R4 / below
        if d == "From":
            exp_tr = f"{exp_trait}<{amp}{cp}>"
            exp_self = own
        else:
            exp_tr = f"{exp_trait}<{cp}>"
            exp_self = amp + own
        chk.expect("R5", key, tr.split("<")[0] == exp_trait, EXPAND, fi.line, "wrong trait for this conversion kind", expected=exp_trait, found=tr.split("<")[0])
        ok_hdr = tr == exp_tr and norm(im["self_ty"]) == exp_self and norm(im["generics"]) == "<__G>" and norm(im.get("where")) == "where__W:__B"
        chk.expect("R6", key + "/header", ok_hdr, EXPAND, fi.line, "impl header shape", expected=[exp_tr, exp_self, "<__G>", "where__W:__B"],
                   found=[tr, norm(im["self_ty"]), norm(im["generics"]), norm(im.get("where"))])
        fns = fn_of_impl(im)
        ats = assoc_types(im)
        ok_items = len(fns) == 1 and (len(ats) == (1 if f else 0)) and len(im["items"]) == len(fns) + len(ats)
        chk.expect("R6", key + "/items", ok_items, EXPAND, fi.line, "impl must contain exactly the trait's one method (+ type Error iff fallible)",
                   expected={"fns": 1, "assoc": 1 if f else 0}, found={"fns": [x["name"] for x in fns], "assoc": [x["name"] for x in ats], "n": len(im["items"])})
        if len(fns) != 1:
            continue
        fn = fns[0]
        sig = fn["sig"]
        ins = []
        for a in sig["inputs"]:
            if a.get("self"):
                ins.append("self" if not a["ref"] else "&self")
            else:
                ins.append(f"{a['pat'].get('name')}:{norm(a['ty'])}")
        out = norm(sig["output"])
        if d == "From":
            exp_ins = [f"value:{amp}{cp}"]
            exp_out = own
        elif d == "Into":
            exp_ins = ["self"]
            exp_out = cp
        else:
            exp_ins = ["self", f"other:&mut{cp}"]
            exp_out = "()" if f else ""
        if f:
            exp_out = f"::core::result::Result<{exp_out},__Err<__ERRG>>"
        ok_sig = fn["name"] == exp_m and ins == exp_ins and out == exp_out
        chk.expect("R6", key + "/sig", ok_sig, EXPAND, fi.line, "method name/signature differs from the trait's", expected=[exp_m, exp_ins, exp_out], found=[fn["name"], ins, out])
        if f:
            et = [norm(x["ty"]) for x in ats if x["name"] == "Error"]
            chk.expect("R6", key + "/Error", et == ["__Err<__ERRG>"], EXPAND, fi.line, "`type Error` is not the declared error type (path with its generic arguments)", expected=["__Err<__ERRG>"], found=et)
        # body wrapper: fallible From/Into use the Ok-wrapping block, others the plain one
        roles = [r for r, _p in c["roles"]]
        want = "init_ok" if (f and d in ("From", "Into")) else "init"
        chk.expect("R5", key + "/body", roles.count(want) == 1 and roles.count("init_ok" if want == "init" else "init") == 0, EXPAND, fi.line,
                   "wrong main-code-block flavour spliced into the skeleton", expected=want, found=[r for r in roles if r and r.startswith("init")])
    for k in kinds(repo):
        for f in (False, True):
            chk.expect("R5", f"quote_trait/covered[{k},{f}]", (k, f) in covered, EXPAND, fi.line, "no skeleton selected for this cell")
    # traits.rs must declare what the skeletons implement
    tr_file = repo.need("src/traits.rs")
    decl = {}
    for it in tr_file["items"]:
        if it["k"] == "Trait":
            decl[it["name"]] = it
    for name, meth, fallible in (("IntoExisting", "into_existing", False), ("TryIntoExisting", "try_into_existing", True)):
        t = decl.get(name)
        ok = False
        found = None
        if t:
            fns = [x for x in t["items"] if x["k"] == "Fn"]
            ats = [x["name"] for x in t["items"] if x["k"] == "AssocType"]
            if len(fns) == 1:
                s = fns[0]["sig"]
                ins = ["self" if a.get("self") and not a["ref"] else (norm(a.get("ty")) if not a.get("self") else "&self") for a in s["inputs"]]
                found = [fns[0]["name"], ins, norm(s["output"]), ats, norm(t["generics"])]
                ok = fns[0]["name"] == meth and ins == ["self", "&mutT"] and norm(t["generics"]) == "<T>" and \
                    (norm(s["output"]) == ("Result<(),Self::Error>" if fallible else "")) and (ats == (["Error"] if fallible else []))
        chk.expect("R6", f"src/traits.rs[{name}]", ok, "src/traits.rs", t["line"] if t else 1, "o2o::traits declaration differs from what the skeleton implements", found=found)


def r7_typepath(chk):
    repo = chk.repo
    chk.rule("R7", "TypePath::from(syn::Path) splits a path into .path and .generics: every template that interpolates one must interpolate the other next to it", floor=3)
    cells, info = impl_table(repo)
    fi = info["quote_trait"]
    done = set()
    for c in cells:
        if c.get("toks") is None:
            continue
        roles = c["roles"]
        for i, (r, path) in enumerate(roles):
            if r == "err_ty_path":
                nxt = roles[i + 1][0] if i + 1 < len(roles) else None
                skel = None
                for lf_a, v in c["decisions"].items():
                    pass
                key = f"err_ty[{direction(c['kind'])},fallible={c['fallible']}]"
                if (key, i) in done:
                    continue
                done.add((key, i))
                chk.expect("R7", key, nxt == "err_ty_generics", EXPAND, fi.line,
                           "error type path interpolated without its generic arguments (`MyErr<i32>` becomes `MyErr`)", expected="err_ty.path followed by err_ty.generics", found=path)
            if r in ("src", "dst"):
                # counterpart side must be followed by those_gens, own side by these_gens; checked by the header rule via placeholders
                pass


def r8_typepath_ctor(chk):
    """The counterpart / error type an impl names is TypePath.path + TypePath.generics; both are cut out of the path the user wrote by
    TypePath::from(syn::Path). Contract (decided by partial evaluation over the shape of the last segment): .path is the WHOLE path with the
    last segment's angle-bracketed arguments cleared, .generics those arguments (None when there are none), .path_str the whole path."""
    from ..pe import Evaluator, StructV, explore, vkey
    repo = chk.repo
    chk.rule("R8", "TypePath::from(syn::Path): .path = the whole path (every qualifier segment) minus the last segment's <..>; .generics = exactly those arguments; .path_str = whole path", floor=2)
    cands = [f for f in repo.fns(ATTR) if f.name == "from" and f.impl and f.impl.get("self_ty") == "TypePath" and "Path" in f.impl.get("trait", "")]
    if len(cands) != 1:
        raise Inconclusive("anchor missing: impl From<syn::Path> for TypePath")
    fi = cands[0]
    leaves = explore(lambda: Evaluator(repo, IMPL_FILES, shallow=True), lambda ev: ev.run_fn(fi, ev.sym_params(fi)))
    n = 0
    for lf in leaves:
        if lf.panic:
            continue  # syn invariant: a Path has at least one segment (C16 G1)
        if lf.unsupported or not isinstance(lf.value, StructV):
            chk.inconc("R8", f"TypePath::from not evaluable: {lf.unsupported or vkey(lf.value)[:80]}")
            continue
        angle = [v for a, v in lf.decisions.items() if "AngleBracketed" in a]
        if not angle:
            chk.inconc("R8", "TypePath::from no longer branches on the last segment's PathArguments::AngleBracketed: " + str(dict(lf.decisions))[:120])
            continue
        angle = bool(angle[0])
        n += 1
        f_ = {k: vkey(v) for k, v in lf.value.fields.items()}
        key = f"TypePath::from[last segment {'with' if angle else 'without'} <..>]"
        path, gens, pstr = f_.get("path", ""), f_.get("generics", ""), f_.get("path_str", "")
        whole = path == "«‹value›»"
        # the segment that is TESTED for <..>, CLEARED and READ must be the last one
        seg_atoms = [a for a in lf.decisions if "AngleBracketed" in a] + [str(e[1]) for e in lf.effects if e[0] == "assign" and str(e[1]).endswith(".arguments")] + ([gens] if gens.startswith("Some(") else [])
        wrong_seg = [a for a in seg_atoms if re.search(r"segments\.(first|first_mut)\(\)|segments\[0\]|segments\.iter\(\)\.next\(\)", a)]
        projected = bool(re.search(r"value\.segments|\.ident|\.first\(|\.last\(", path))
        cleared = any(e[0] == "assign" and e[1].endswith(".arguments") and "None" in str(e[2]) for e in lf.effects if len(e) >= 3)
        if wrong_seg:
            chk.bad("R8", key, ATTR, fi.line, "generic arguments are looked for / cleared / read on a segment other than the last one (a qualified generic path keeps its <..> in .path, or loses them)",
                    expected="segments.last() / last_mut()", found=wrong_seg[:3])
            continue
        if angle:
            good = whole and cleared and gens.startswith("Some(") and "AngleBracketed" in gens and pstr == "str(‹value›)"
            bad = projected or (whole and not cleared) or gens == "None" or (pstr != "str(‹value›)" and "value.segments" in pstr)
        else:
            good = whole and gens == "None" and pstr == "str(‹value›)"
            bad = projected or gens.startswith("Some(")
        chk.shape("R8", key, good, bad, ATTR, fi.line,
                  what="the path an impl names is not the whole user-written path (qualifier segments dropped, generic arguments kept twice or lost)",
                  expected="path: whole `value` with last <..> cleared; generics: the cleared arguments; path_str: whole", found=f_)
    if n < 2:
        chk.inconc("R8", f"only {n} evaluable leaves of TypePath::from")


def r9_validation_partition(chk):
    """Requested impl set = instruction set only if validation does not reject an instruction because of an instruction of ANOTHER
    conversion: its per-counterpart rules must be dispatched per (kind, fallible), like data_type_impl (imported from C15.R1)."""
    from ..core import Check
    from . import c15
    sub = Check("C15", chk.repo, chk.tier)
    sub.guard("R1", lambda: c15.r1(sub))
    chk.rule("R9", "validation applies the one-instruction-per-counterpart rule within one (kind, fallible) conversion, never across conversions", floor=12)
    for r_, why in sub.inconclusive:
        chk.inconc("R9", why)
    for i in sub.instances:
        if i.rule == "R1" and i.key.startswith("validate_struct_attrs"):
            if i.ok:
                chk.ok("R9", "validation:" + i.key, i.file, i.line)
            else:
                chk.bad("R9", "validation:" + i.key, i.file, i.line, i.what, i.expected, i.found)


def r10_all_instructions_collected(chk):
    """Requested impl set = instruction set only if every instruction written reaches the attribute tables: imported from C13.R3
    (source order, whole lists kept, errors propagated)."""
    from ..core import Check
    from . import c13
    sub = Check("C13", chk.repo, chk.tier)
    sub.guard("R3", lambda: c13.r3(sub))
    chk.rule("R10", "every instruction written (bare or inside an #[o2o(..)] list) is collected, in written order", floor=4)
    for r_, why in sub.inconclusive:
        chk.inconc("R10", why)
    for i in sub.instances:
        if i.rule == "R3" and i.key.startswith("get_data_type_attrs"):
            if i.ok:
                chk.ok("R10", "collect:" + i.key, i.file, i.line)
            else:
                chk.bad("R10", "collect:" + i.key, i.file, i.line, i.what, i.expected, i.found)


def r11_type_grammar(chk, rule="R11"):
    """The counterpart type and the error type written in a trait instruction are parsed with the full path grammar (generic arguments
    allowed): `#[try_map(Dto<T>, MyErr<i32>)]` must yield its impls. A parser restricted to plain identifiers / mod-style paths rejects
    (or truncates) such an instruction and its impls are missing."""
    chk.rule(rule, "TraitAttrCore::parse reads `ty` and `err_ty` with the full path grammar (parse::<syn::Path>), never an identifier-only or mod-style parser", floor=2)
    fi = chk.repo.fn(ATTR, "parse", impl="TraitAttrCore")
    lits = [n for n in walk(fi.body) if n.get("k") == "Struct" and n.get("path", "").split("::")[-1].strip() == "TraitAttrCore"]
    if len(lits) != 1:
        raise Inconclusive(f"TraitAttrCore::parse: {len(lits)} TraitAttrCore literals")

    def pname(p_):
        p_ = p_.get("pat") if p_.get("k") == "PType" else p_
        return p_.get("name") if p_.get("k") == "PIdent" else None
    FULL = re.compile(r"::<(syn::)?(Path|TypePath|Type)>")
    NARROW = re.compile(r"::<(syn::)?(Ident|Lifetime|LitStr)>")
    for member in ("ty", "err_ty"):
        fx = [f_["expr"] for f_ in lits[0]["fields"] if f_["member"] == member]
        if len(fx) != 1:
            raise Inconclusive(f"TraitAttrCore literal has no `{member}` field")
        e = fx[0]
        if e.get("k") == "Path" and len(e.get("segs", [])) == 1:
            ls = [st for st in walk(fi.body) if st.get("k") == "Let" and pname(st["pat"]) == e["segs"][0] and st.get("init") is not None]
            if len(ls) != 1:
                raise Inconclusive(f"TraitAttrCore::parse: local `{e['segs'][0]}` is not a single let")
            e = ls[0]["init"]
        full, narrow = [], []
        for n in walk(e):
            if n.get("k") == "MethodCall" and n["method"] == "parse":
                tf = (n.get("turbofish") or "").replace(" ", "")
                if FULL.search(tf):
                    full.append(tf)
                elif NARROW.search(tf):
                    narrow.append("parse" + tf)
            if n.get("k") == "Path" and n.get("segs") and n["segs"][-1] in ("parse_mod_style", "parse_any", "parse_ident"):
                narrow.append("::".join(n["segs"]))
            if n.get("k") == "MethodCall" and n["method"] in ("parse_mod_style", "parse_any"):
                narrow.append(n["method"])
        chk.shape(rule, f"grammar[{member}]", bool(full) and not narrow, bool(narrow), ATTR, e.get("line", fi.line),
                  what=f"`{member}` of a trait instruction is read by a parser that does not accept generic arguments: instructions naming `X<..>` are rejected and their impls are not generated",
                  expected="parse::<syn::Path>()", found=(narrow or full or ["no recognised parser call"])[:3])


def run(chk):
    chk.guard("R10", lambda: r10_all_instructions_collected(chk))
    chk.guard("R11", lambda: r11_type_grammar(chk))
    chk.guard("R9", lambda: r9_validation_partition(chk))
    chk.guard("R8", lambda: r8_typepath_ctor(chk))
    chk.guard("R1", lambda: r1_names(chk))
    chk.guard("R3", lambda: r3_filter(chk))
    chk.guard("R4", lambda: r4_chain(chk))
    chk.guard("R5", lambda: r5_r6_impls(chk))
    chk.guard("R7", lambda: r7_typepath(chk))
    chk.unit("files", 4)
