#!/bin/bash
# maintenance helper: confirm that each kept refactoring applies and leaves the pinned suite green in both configurations (scratch worktree)
V=/tmp/wt-verify
[ -d $V ] || git -C /repo worktree add -q $V HEAD
export CARGO_TARGET_DIR=$V/target CARGO_NET_OFFLINE=true
for d in /verif/benign/${1:-}*/; do
  id=$(basename $d)
  git -C $V checkout -q -- . ; git -C $V clean -fdq -e target
  git -C $V apply $d/patch.diff || { echo "$id PATCH DOES NOT APPLY"; continue; }
  s1=$(cd $V && cargo test --workspace --no-fail-fast --offline 2>&1 | awk '/^test result/ {p+=$4; f+=$6} END {print "passed=" p " failed=" f}')
  s2=$(cd $V && cargo test -p o2o-impl --no-default-features --features syn2 --offline 2>&1 | awk '/^test result/ {p+=$4; f+=$6} END {print "passed=" p " failed=" f}')
  echo "$id workspace: $s1 | o2o-impl syn2: $s2"
  echo "{\"id\": \"$id\", \"kind\": \"behaviour-preserving refactoring (independent sub-agent)\", \"suite\": \"$s1\", \"o2o_impl_syn2\": \"$s2\"}" > $d/meta.json
done
git -C $V checkout -q -- .
