#!/bin/bash
# maintenance helper: run every check against each behaviour-preserving refactoring kept under /verif/benign/<id>/patch.diff
# (apply to /repo, run the 20 quick checks, git checkout -- .). A VIOLATION here is a false alarm of the checker.
# usage: tools/benign.sh [id-prefix]
cd /verif
for d in benign/${1:-}*/; do
  id=$(basename $d)
  git -C /repo apply /verif/$d/patch.diff 2>/dev/null || { echo "$id: PATCH DOES NOT APPLY"; continue; }
  viol=""; inc=""
  for n in $(seq -w 1 20); do
    r=$(O2O_SCRATCH_EVIDENCE=1 ./check C$n 2>&1); c=$?
    if [ $c -eq 1 ]; then viol="$viol C$n"; echo "$r" | grep -A1 "^VIOLATION" | grep "rule=" | head -3 | cut -c1-260 | sed "s/^/    [$id C$n] /"; fi
    if [ $c -eq 2 ]; then inc="$inc C$n"; echo "$r" | grep "^INCONCLUSIVE" | head -2 | cut -c1-260 | sed "s/^/    [$id C$n] /"; fi
  done
  git -C /repo checkout -- .
  echo "$id false-alarms:[$viol ] inconclusive:[$inc ]"
done
