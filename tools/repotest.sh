#!/bin/bash
# maintenance helper: run /repo's pinned suite (fallback form of BASELINE.json's command) and print totals
cd "${1:-/repo}" && cargo test --workspace --no-fail-fast --offline 2>&1 | awk '/^test result/ {p+=$4; f+=$6} /FAILED|panicked at/ {print} END {print "TOTAL passed=" p " failed=" f}'
