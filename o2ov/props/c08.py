"""C08 — trait-instruction params (vars, ..update, return, attributes) act as documented."""
import re

from ..pe import Clos, Evaluator, ListV, SymObj, Tag, Toks, explore, show_toks, vkey
from ..quote import parse_template, show
from ..skeleton import fn_of_impl, impl_table
from ..src import render_stmt, Inconclusive, calls, method_calls, render, walk, walk_with_parents
from ..tables import ATTR, EXPAND, IMPL_FILES, direction, kinds

LEVEL = "other"
EXPLANATION = (
    "R1: the parameter grammar (parse_trait_instruction_param) partially evaluated over its keyword domain: each keyword sets exactly its own field, "
    "guarded by an 'already set' test on that same field; `..`, `return`, `_` consume the rest as one expression. R2: struct_pre_init emits one "
    "`let <ident> = <quote_action(expr)>;` per var in declaration order, and in EVERY body of the impl table (12 cells x post-init) the slots are ordered "
    "inner_attr, pre_init, init, post_init with pre_init present. R3: `..update` is appended after all member and ghost lines. R4: a quick return "
    "is tested first and replaces the whole body (`*other = …;` for into_existing) identically in both main_code_block flavours. R5: attribute slots: "
    "#impl_attr on the impl, #attr on the fn, #inner_attr first inside the body (positions read from syn's parse of the skeleton), and the "
    "#[..] / #![..] wrappers are applied where the parameter is parsed.")
NOT_DECIDED = ["run-time evaluation order beyond statement order", "what `..expr` should mean for into_existing / post-init bodies (undocumented; reported under C17)"]

FIELD_OF = {"stop_repeat": "stop_repeat", "skip_repeat": "skip_repeat", "repeat": "repeat", "vars": "init_data", "attribute": "attribute",
            "impl_attribute": "impl_attribute", "inner_attribute": "inner_attribute"}
REST_FIELDS = {"Token![..]": "update", "Token![return]": "quick_return", "Token![_]": "default_case"}


def r1(chk):
    repo = chk.repo
    chk.rule("R1", "parameter grammar: keyword -> its own field, duplicate-guard on the same field; `..`/`return`/`_` take the rest of the input", floor=10)
    fi = repo.fn(ATTR, "parse_trait_instruction_param")

    def mk():
        return Evaluator(repo, IMPL_FILES, shallow=True)
    leaves = explore(mk, lambda ev: ev.run_fn(fi, ev.sym_params(fi)))
    chk.unit("grammar_leaves", len(leaves))
    seen = set()
    for lf in leaves:
        trues = [a for a, v in lf.decisions.items() if v is True and ".peek(" in a]
        if not trues:
            ok = vkey(lf.value) == "Ok(false)" and not any(e[0] == "assign" for e in lf.effects)
            chk.expect("R1", "param[<none>]", ok, ATTR, fi.line, "no keyword: must stop without touching the instruction", found=[vkey(lf.value), lf.effects[-2:]])
            continue
        m = re.search(r"\.peek\((.*)\)$", trues[0])
        tok = m.group(1)
        if tok in REST_FIELDS:
            fld = REST_FIELDS[tok]
            assigns = [e for e in lf.effects if e[0] == "assign"]
            ok = vkey(lf.value) == "Ok(false)" and len(assigns) == 1 and assigns[0][1].endswith("." + fld) and assigns[0][2].startswith("try_parse_action(") and assigns[0][2].endswith("true)")
            seen.add(tok)
            chk.expect("R1", f"param[{tok}]", ok, ATTR, fi.line, "rest-of-input parameter sets the wrong field or does not end the parameter list",
                       expected=f"attr.{fld} = try_parse_action(input, true); Ok(false)", found=[vkey(lf.value), assigns])
            continue
        kw = tok.split("::")[-1]
        fld = FIELD_OF.get(kw)
        key = f"param[{kw}]"
        seen.add(kw)
        if fld is None:
            chk.bad("R1", key, ATTR, fi.line, "undocumented parameter keyword", found=tok)
            continue
        v = vkey(lf.value)
        # the helper call selected by this keyword, read from the syntax tree
        cs = [c for c in calls(fi.body) if re.search(r"::<kw::" + kw + r"\b", c["func"]["path"])]
        if len(cs) != 1:
            chk.bad("R1", key, ATTR, fi.line, "expected one helper call typed by this keyword", found=[c["func"]["path"] for c in cs])
            continue
        c = cs[0]
        args = c["args"]
        two = len(args) == 6
        cond = render(args[2 if two else 1]).replace(" ", "")
        setter = args[3 if two else 2]
        name = args[-1]["lit"]["v"] if args[-1]["k"] == "Lit" else None
        assigns = [n for n in walk(setter) if n["k"] == "Assign"]
        set_f = render(assigns[0]["l"]).replace(" ", "") if len(assigns) == 1 else None
        ok = cond in (f"attr.{fld}", f"attr.{fld}.is_some()") and set_f == f"attr.{fld}" and name == kw and f"'{kw}')" in v
        chk.expect("R1", key, ok, ATTR, c["line"], "keyword guards/sets a different field than its own (duplicates not rejected, or another parameter clobbered)",
                   expected=f"guard attr.{fld}, set attr.{fld}, name '{kw}'", found={"guard": cond, "set": set_f, "name": name, "selected": v[:60]})
    for want in list(FIELD_OF) + list(REST_FIELDS):
        chk.expect("R1", f"param-covered[{want}]", want in seen, ATTR, fi.line, "documented parameter is not parsed")
    # helpers: duplicate -> error, else setter called once and Ok(true)
    for hn in ("parse_trait_instruction_param_inner_1", "parse_trait_instruction_param_inner_2"):
        h = repo.fn(ATTR, hn)
        lv = explore(mk, lambda ev: ev.run_fn(h, ev.sym_params(h)))
        for lf in lv:
            c = lf.decisions.get("condition")
            if lf.panic or lf.unsupported:
                chk.bad("R1", f"{hn}[condition={c}]", ATTR, h.line, "helper not evaluable", found=str(lf.panic or lf.unsupported))
                continue
            calls_ = [e for e in lf.effects if e[0] == "call" and e[1] == "setter"]
            if c is True:
                ok = not calls_ and "Err(" in vkey(lf.value) or "Error" in vkey(lf.value)
                ok = ok and not calls_
            else:
                ok = len(calls_) == 1 and vkey(lf.value) == "Ok(true)"
            chk.expect("R1", f"{hn}[condition={c}]", ok, ATTR, h.line, "duplicate parameter must be rejected; first occurrence must be stored exactly once", found=[vkey(lf.value)[:80], calls_])


def render_call_turbofish(fi, kw):
    out = []
    for c in calls(fi.body):
        if kw in c["func"]["path"]:
            out.append(c["func"]["path"])
    return " ".join(out)


def r2(chk):
    repo = chk.repo
    chk.rule("R2", "vars: one `let ident = expr;` per var, in order; every body of the impl table runs inner_attr, pre_init, init, post_init in this order", floor=20)
    fi = repo.fn(EXPAND, "struct_pre_init")
    maps = [m for m in method_calls(fi.body, "map") if m["args"] and m["args"][0]["k"] == "Closure"]
    if len(maps) != 1:
        raise Inconclusive("struct_pre_init: expected one .map(closure) over init_data")
    src = render(maps[0]["recv"]).replace(" ", "")
    chk.shape("R2", "struct_pre_init/order", src == "init_data.iter()", bool(re.search(r"\.(rev|skip|take|step_by|filter)\(", src)), EXPAND, maps[0]["line"], "vars are not emitted in declaration order", expected="init_data.iter()", found=src)
    cl = maps[0]["args"][0]

    def mk():
        return Evaluator(repo, IMPL_FILES, shallow=True)

    def run(ev):
        env = ev.sym_params(fi)
        c = Clos(cl["params"], cl["body"], env, ev)
        return ev.call_closure(c, [SymObj("x", ("named", "InitData"))])
    lv = explore(mk, run)
    exp = "let ‹x.ident› = ‹quote_action(x.action, None, ctx)› ;"
    got = [show_toks(l.value.toks) if isinstance(l.value, Toks) else str(l) for l in lv]
    chk.expect("R2", "struct_pre_init/line", got == [exp], EXPAND, cl["line"], "var line", expected=exp, found=got)
    tail = [n for n in walk(fi.body) if n["k"] == "Call" and n["func"]["path"].endswith("TokenStream::from_iter")]
    coll = [m_ for m_ in method_calls(fi.body, "collect")] + [m_ for m_ in method_calls(fi.body, "extend")]
    reorder = [m_["method"] for m_ in method_calls(fi.body) if m_["method"] in ("rev", "sort", "sort_by", "sort_by_key", "skip", "take", "step_by", "filter", "dedup", "last", "next", "nth")]
    chk.shape("R2", "struct_pre_init/concat", (len(tail) == 1 or len(coll) >= 1) and not reorder, bool(reorder), EXPAND, fi.line, what="var lines are not concatenated in order (all of them, in declaration order)", found={"from_iter": len(tail), "collect/extend": len(coll), "adaptors": reorder})
    # slot order in every body
    cells, info = impl_table(repo)
    qt = info["quote_trait"]
    for c in cells:
        if c.get("toks") is None:
            continue
        roles = [r for r, _p in c["roles"] if r in ("inner_attr", "pre_init", "init", "init_ok", "post_init")]
        roles = ["init" if r == "init_ok" else r for r in roles]
        want = ["inner_attr", "pre_init", "init"] + (["post_init"] if c["post_init"] else [])
        if direction(c["kind"]) == "Existing" and not c["post_init"]:
            want = ["inner_attr", "pre_init", "init"] + (["post_init"] if "post_init" in roles else [])
        key = f"body[{direction(c['kind'])},fallible={c['fallible']},post_init={c['post_init']}]"
        chk.expect("R2", key, roles == want, EXPAND, qt.line, "body slots: vars(..) bindings must precede the member expressions in every body variant",
                   expected=want, found=roles, detail={"kind": c["kind"]})


def r3(chk):
    repo = chk.repo
    chk.rule("R3", "`..update` is appended exactly once, after every member line and ghost line, as `..<quote_action(update)>`", floor=2)
    from ..quote import category, templates_in
    fi = repo.fn(EXPAND, "struct_init_block_inner")
    stmts = fi.body["stmts"]
    idx_loop = idx_ghost = None
    upd = []
    for i, s_ in enumerate(stmts):
        if s_["k"] == "ExprStmt" and s_["expr"]["k"] in ("While", "Loop", "For"):
            idx_loop = i
        if any(c_["func"]["segs"][-1] == "render_ghost_line" for c_ in calls(s_)):
            idx_ghost = i
        for m, tpl in templates_in(s_):
            if category(tpl) == "Update":
                upd.append((i, s_, m, tpl))
    chk.expect("R3", "update/once", len(upd) == 1, EXPAND, fi.line, "the update fragment must be produced at exactly one place", found=[u[2]["line"] for u in upd])
    for i, s_, m, tpl in upd:
        qa = [c_ for c_ in calls(s_, "quote_action")] + [m_ for m_ in method_calls(s_, "quote_action")]
        cond = render(s_["expr"]["cond"]) if s_["k"] == "ExprStmt" and s_["expr"]["k"] == "If" else ""
        ok = len(tpl) == 3 and tpl[2]["t"] == "hole" and len(qa) == 1 and ".update" in cond
        raw = len(tpl) == 3 and tpl[2]["t"] == "hole" and not qa and re.search(r"\bupdate\b", render_stmt(s_)) is not None and "replace_tilde" not in render_stmt(s_)
        chk.shape("R3", "update/fragment", ok, raw, EXPAND, m["line"], what="update fragment is not `..<substituted update expr>`", found=show(tpl))
        okp = None not in (idx_loop, idx_ghost) and idx_loop < idx_ghost < i
        chk.expect("R3", "update/position", okp, EXPAND, m["line"], "`..update` must come after member lines and ghost lines", expected="loop < ghosts < update", found=[idx_loop, idx_ghost, i])


def r4(chk):
    repo = chk.repo
    chk.rule("R4", "quick return is tested first and replaces the whole body; `*other = expr;` for into_existing; both block flavours agree", floor=12)

    def mk():
        # helpers of the body builders are evaluated in place; only the renderers below them are summarised
        return Evaluator(repo, IMPL_FILES, opaque={"quote_action", "struct_main_code_block", "enum_main_code_block"})
    tables = {}
    from ..skeleton import body_builders
    for name, fi, preset_ in body_builders(repo):
        lv = explore(mk, lambda ev: ev.run_fn(fi, {**ev.sym_params(fi), **preset_}))
        if any(lf.unsupported for lf in lv):
            raise Inconclusive(f"{name} not evaluable: " + str([lf.unsupported for lf in lv if lf.unsupported][:1]))
        t = {}
        for lf in lv:
            if lf.get("ctx.struct_attr.quick_return") == "Some":
                k = lf.get("ctx.kind")
                v = vkey(lf.value)
                t[k] = v
                qa = "quote_action(ctx.struct_attr.quick_return!, None, ctx)"
                exp = f"«* other = ‹{qa}› ;»" if direction(k) == "Existing" else qa
                chk.expect("R4", f"{name}[{k}]", v == exp, EXPAND, fi.line, "quick return body", expected=exp, found=v)
        tables[name] = t
    chk.expect("R4", "flavours-agree", tables["main_code_block"] == tables["main_code_block_ok"] and len(tables["main_code_block"]) == 6, EXPAND, 1,
               "fallible and infallible body builders treat `return` differently", found=tables)


def r5(chk):
    repo = chk.repo
    chk.rule("R5", "attribute slots: impl_attribute on the impl, attribute on the fn, inner_attribute first inside the fn body; wrappers #[..]/#![..] applied at the parse site", floor=14)
    cells, info = impl_table(repo)
    qt = info["quote_trait"]
    for c in cells:
        if c.get("toks") is None or not c["parsed"].get("ok") or not c["parsed"]["items"] or c["parsed"]["items"][0]["k"] != "Impl":
            continue
        im = c["parsed"]["items"][0]
        key = f"slots[{direction(c['kind'])},fallible={c['fallible']},post_init={c['post_init']}]"
        impl_attrs = [(a["path"], a["inner"]) for a in im["attrs"]]
        fns = fn_of_impl(im)
        fn_attrs = [(a["path"], a["inner"]) for a in fns[0]["attrs"]] if fns else None
        ok = impl_attrs == [("__impl_attr", False)] and fn_attrs is not None and sorted(fn_attrs) == sorted([("__attr", False), ("__inner_attr", True)])
        chk.expect("R5", key, ok, EXPAND, qt.line, "attribute(..)/impl_attribute(..)/inner_attribute(..) attached at the wrong place",
                   expected={"impl": ["#[impl_attr]"], "fn": ["#[attr]", "#![inner_attr] (first in body)"]}, found={"impl": impl_attrs, "fn": fn_attrs})
    # provenance of the three slots
    fi = repo.fn(EXPAND, "get_quote_trait_params")
    lits = [n for n in walk(fi.body) if n["k"] == "Struct" and n["path"].endswith("QuoteTraitParams")]
    if len(lits) != 1:
        raise Inconclusive("get_quote_trait_params: QuoteTraitParams literal not found")
    st = {f["member"]: render(f["expr"]).replace(" ", "") for f in lits[0]["fields"]}
    for slot, fld in (("attr", "attribute"), ("impl_attr", "impl_attribute"), ("inner_attr", "inner_attribute")):
        chk.shape("R5", f"provenance[{slot}]", st.get(slot) == f"ctx.struct_attr.{fld}.as_ref()", bool(re.fullmatch(r"ctx\.struct_attr\.(attribute|impl_attribute|inner_attribute)\.as_ref\(\)", st.get(slot) or "")), EXPAND, lits[0]["line"], "slot fed from the wrong parameter",
                   expected=f"ctx.struct_attr.{fld}.as_ref()", found=st.get(slot))
    # wrappers at the parse site
    fp = repo.fn(ATTR, "parse_trait_instruction_param")
    want = {"attribute": "# [ #x ]", "impl_attribute": "# [ #x ]", "inner_attribute": "# ! [ #x ]"}
    found = {}
    for n in walk(fp.body):
        if n["k"] == "Assign" and n["l"]["k"] == "Field" and n["l"]["member"] in want:
            for m in walk(n["r"]):
                if m["k"] == "Macro" and m["last"] == "quote":
                    found[n["l"]["member"]] = re.sub(r"\s+", " ", show(parse_template(m["tokens"])).replace("[", " [ ").replace("]", " ] ")).strip()
    for k, w in want.items():
        chk.expect("R5", f"wrapper[{k}]", found.get(k, "").replace(" ", "") == w.replace(" ", ""), ATTR, fp.line, "attribute wrapper", expected=w, found=found.get(k))


def run(chk):
    chk.guard("R1", lambda: r1(chk))
    chk.guard("R2", lambda: r2(chk))
    chk.guard("R3", lambda: r3(chk))
    chk.guard("R4", lambda: r4(chk))
    chk.guard("R5", lambda: r5(chk))

    def r6():
        # `return` replaces the body, so the members are never read: the member-name checks of validation must stay exempted for
        # instructions that carry one (otherwise a valid input is rejected and no impl is produced). Imported from C15.R9.
        from ..core import Check
        from . import c15
        sub = Check("C15", chk.repo, chk.tier)
        sub.guard("R9", lambda: c15.r9(sub))
        chk.rule("R6", "validation exempts quick-return instructions from the per-member name checks (guard sets of those diagnostics contain `quick_return.is_none()`)", floor=4)
        for r_, why in sub.inconclusive:
            if "emit[Member" in why:
                chk.inconc("R6", why)
        for i in sub.instances:
            if i.rule == "R9" and i.key.startswith("emit[Member"):
                if i.ok:
                    chk.ok("R6", "validation:" + i.key, i.file, i.line)
                else:
                    chk.bad("R6", "validation:" + i.key, i.file, i.line, i.what, i.expected, i.found)
    chk.guard("R6", r6)

    def r7():
        # `..expr` supplies exactly the fields no member instruction provides: whether a member contributes a line must not depend on the
        # presence of the update expression (nor on vars / attributes): no path of the member loops consults those parameters
        from ..linetables import struct_iter_table
        chk.rule("R7", "member rendering is independent of the instruction's body parameters: no path of the per-member loop consults update / init_data / attribute parameters", floor=1)
        T = struct_iter_table(chk.repo)
        hits = {}
        for lf in T["leaves"]:
            for a in lf.d:
                m_ = re.search(r"struct_attr\.(update|init_data|attribute|impl_attribute|inner_attribute)\b", a)
                if m_:
                    hits.setdefault(m_.group(1), a)
        for name, atom in sorted(hits.items()):
            chk.bad("R7", f"member-loop consults {name}", EXPAND, T["line"], "whether / how a member is rendered depends on this body parameter (a field with its own instruction may be dropped and silently taken from `..expr`)", found=atom)
        if not hits:
            chk.ok("R7", "member-loop/independent", EXPAND, T["line"], detail={"leaves": len(T["leaves"])})
    chk.guard("R7", r7)
